"""C47 - a connection is usable only after a successful handshake.

Spec: spec/Handshake.tla - the handshake state machine (OptionsSent, StartupSent, CredsSent, AuthSent, Ready,
      Failed), the environment choosing every server reply; configurations = protocol version x authenticator
      kind x compression setting x locally available algorithms; SUPPORTED carries the server's algorithms.
TLC : exhaustive over all configurations x all reply sequences up to MaxLen; invariants
      ReadyOnlyAfterReadyOrAuthSuccess, OutcomeClasses, NegotiatedCommon, CompressorAfterAccept,
      ChecksummingExactlyV5, FactoryReturnsOnlyAfterReady; a second, two-thread model (Fine) splits the failure
      path into the steps of defunct()/close() and lets the thread blocked in Connection.factory wake up whenever
      connected_event is set (NoEarlyWake; the EarlySet variant must violate the property).
Bind: spec -> code: EVERY maximal behaviour of the state graph is replayed through the real Connection.factory
      on a SimConnection against a scripted server (harness/replay/handshake.py); after each reply the real
      connection (factory's view, switches, every frame written, decoded independently) must equal the spec state;
      the connection's connected_event is wrapped so that at the very instant it is set the factory-side decision
      (last_error recorded -> raise, else return the connection) is evaluated and compared with the spec's.
      code -> spec: seeded random scripted handshakes (longer, replies split into chunks) are recorded and
      validated by TLC against spec/Trace_Handshake.tla with the invariants on.
      reactors: the close-before-READY behaviour of the real asyncio / twisted connection classes (real sockets, real
      factory) and of the real eventlet / gevent close() is observed (harness/replay/reactor_close.py) and must be one
      of the close contracts of the model that keep the statement (CloseSteps); a real close() that sets the event
      without recording last_error is reported per reactor.
"""
import copy
import os

from harness import tlc

META = {
    "property_id": "C47",
    "engine": "Handshake",
    "technique": "TLA+ state machine of the connection handshake checked by TLC; every spec behaviour replayed through "
                 "the real Connection.factory on a simulated transport, recorded random handshakes validated by TLC",
    "level": "model_checking",
    "level_text": "TLC explores every sequence of server replies (SUPPORTED with each algorithm set, READY, AUTHENTICATE, "
                  "AUTH_CHALLENGE valid/invalid, AUTH_SUCCESS, four ERROR kinds, unexpected message, disconnect, silence) "
                  "up to MaxLen for every configuration (protocol versions, no/SASL/credentials authenticator, "
                  "compression False/True/'lz4'/'snappy', each set of locally available algorithms) and checks the five "
                  "clauses of the statement as invariants. Each maximal behaviour is then executed on the real "
                  "Connection (through Connection.factory) and compared state by state, including the decoded bytes of "
                  "every frame the connection wrote, so the model is the code's behaviour over that whole bounded domain. "
                  "The caller's thread (blocked in Connection.factory) is modelled too: TLC interleaves its wake-up with the "
                  "individual steps of defunct()/close(), and the replay evaluates the factory-side decision at the very "
                  "instant the real connected_event is set.",
    "level_note": "Trusted: TLC, the transcription of the statement into the invariants, harness/wire.py, SimConnection's "
                  "reactor contract (close() sets last_error during the handshake as the shipped reactors do), stand-in "
                  "lz4/snappy callables following the driver's calling convention. Bounds: reply sequences <= MaxLen "
                  "(5 quick / 6 thorough); versions 1,4,5,DSE_V2 quick, 1-6 (v6 as beta, checksummed like v5) and DSE_V1/DSE_V2 (not checksummed) thorough.",
    "design_ref": "5.2 C47",
}

INVARIANTS = ["TypeOK", "ReadyOnlyAfterReadyOrAuthSuccess", "OutcomeClasses", "NegotiatedCommon",
              "CompressorAfterAccept", "ChecksummingExactlyV5", "FactoryReturnsOnlyAfterReady", "NoEarlyWake"]
ACTIONS = ["AnyOptionsReply", "AnyStartupReply", "AnyAuthReply", "AnyProtoError", "Disconnect", "Silence", "Probe"]
MAX_REPORT = 10
WITNESSES = ["Witness_ReadyCompressedChecksummed", "Witness_AuthFailed", "Witness_ChallengeLoop",
             "Witness_SnappyDroppedV5", "Witness_CredsReady"]


def behaviours(states, max_len):
    """All maximal behaviours (lists of states, Init first) of the (tree-shaped) state space."""
    index = {}
    for s in states:
        index[(s["cfg"], s["hist"], s["probed"])] = s
    out = []
    for s in states:
        leaf = s["phase"] == "Failed" or (s["phase"] == "Ready" and s["probed"]) or \
            (s["phase"] not in ("Ready", "Failed") and len(s["hist"]) == max_len)
        if not leaf:
            continue
        path = []
        for i in range(len(s["hist"]) + 1):
            st = index.get((s["cfg"], s["hist"][:i], False))
            if st is None:
                raise tlc.MachineryError("state dump is not prefix closed: %r" % (s["hist"][:i],))
            path.append(st)
        if s["probed"]:
            path.append(s)
        out.append(path)
    return out


def signature(d):
    act = d["action"]
    return "replay:%s%s:%s" % (act.get("k"), ("(%s)" % act["kind"]) if act.get("kind") else "", ",".join(sorted(d["diff"])))


def describe(path):
    c = path[0]["cfg"]
    return {"cfg": {"ver": c["ver"], "auth": c["auth"], "comp": c["comp"], "local": sorted(c["local"])},
            "replies": [dict(k=s["act"]["m"]["k"], algos=sorted(s["act"]["m"]["algos"]), kind=s["act"]["m"]["kind"])
                        for s in path[1:] if s["act"]["name"] == "Reply"],
            "probe": any(s["act"]["name"] == "Probe" for s in path[1:])}


def run(ctx):
    from harness.replay import handshake as hs
    # 65 / 66 = DSE_V1 / DSE_V2 (0x41 / 0x42): above v5 numerically but without checksummed framing
    consts = {"Versions": {1, 4, 5, 66}, "MaxLen": 5} if ctx.quick else {"Versions": {1, 2, 3, 4, 5, 6, 65, 66}, "MaxLen": 6}
    consts.update(Fine=False, EarlySet=False, CloseKinds={"record_set", "no_set"})
    cfg = tlc.write_cfg(os.path.join(ctx.scratch, "hs.cfg"), constants=consts, invariants=INVARIANTS, deadlock=False)
    res, states = tlc.enumerate_states("Handshake", cfg, ctx.scratch, coverage=True, timeout=1500)
    ctx.add_tlc(res, "exhaustive %s" % (consts,))
    ctx.note("constants", {"Versions": sorted(consts["Versions"]), "MaxLen": consts["MaxLen"]})
    if res.violation:
        ctx.violation("TLC: invariant %s violated on Handshake.tla (the modelled handshake itself breaks the statement)"
                      % res.invariant, replay={"trace": [dict(s) for _, s in res.trace()]},
                      signature="spec:%s" % res.invariant)
        return
    cov = res.coverage()
    zero = [a for a in ACTIONS if cov.get(a, (0, 0))[1] == 0]
    if zero:
        raise tlc.MachineryError("actions never taken in the exhaustive model: %s" % zero)
    wconsts = {"Versions": {1, 5}, "MaxLen": 4, "Fine": False, "EarlySet": False,
               "CloseKinds": {"record_set", "no_set"}}   # reachable in a small model => reachable in the explored one
    for w in WITNESSES:
        wcfg = tlc.write_cfg(os.path.join(ctx.scratch, w + ".cfg"), constants=wconsts, invariants=[w], deadlock=False)
        wres = tlc.check_model("Handshake", wcfg, ctx.scratch, timeout=600)
        if wres.invariant != w:
            raise tlc.MachineryError("vacuity witness %s not reachable" % w)
    ctx.note("vacuity_witnesses_reached", len(WITNESSES))

    # ---- the two-thread model: failure path split into the steps of defunct()/close(), the thread blocked in
    # Connection.factory waking up at any moment at which connected_event is set (same constants, TLC only;
    # NoEarlyWake is what makes the atomic failure step of the replayed model sound)
    fconsts = dict(consts, Fine=True)
    fcfg = tlc.write_cfg(os.path.join(ctx.scratch, "hs_fine.cfg"), constants=fconsts, invariants=INVARIANTS, deadlock=False)
    fres = tlc.check_model("Handshake", fcfg, ctx.scratch, coverage=True, timeout=1500)
    ctx.add_tlc(fres, "exhaustive, failure path and factory wake-up interleaved (Fine)")
    if fres.violation:
        ctx.violation("TLC: invariant %s violated on Handshake.tla with the failure path interleaved with the factory thread"
                      % fres.invariant, replay={"trace": [dict(s) for _, s in fres.trace()]}, signature="spec-fine:%s" % fres.invariant)
        return
    fcov = fres.coverage()
    if not all(fcov.get(a, (0, 0))[1] for a in ("FailStep", "FactoryObserve")):
        raise tlc.MachineryError("FailStep / FactoryObserve never taken in the fine model")
    # the race is real in the model: with the event set before last_error is recorded the property must break
    econsts = dict(wconsts, Fine=True, EarlySet=True)
    ecfg = tlc.write_cfg(os.path.join(ctx.scratch, "hs_early.cfg"), constants=econsts,
                         invariants=["FactoryReturnsOnlyAfterReady"], deadlock=False)
    eres = tlc.check_model("Handshake", ecfg, ctx.scratch, timeout=600)
    if eres.invariant != "FactoryReturnsOnlyAfterReady":
        raise tlc.MachineryError("the early-set variant of the model does not violate FactoryReturnsOnlyAfterReady")
    ctx.note("race_witness", "EarlySet model violates FactoryReturnsOnlyAfterReady as required")

    # ---- the connection is closed before READY: what do the REAL reactors do?  (harness/replay/reactor_close.py runs
    # the real AsyncioConnection / TwistedConnection through the real Connection.factory over real sockets, peer EOF and
    # the reactor's own close(); eventlet / gevent: the real unbound close() on a stand-in.)  The verdict comes from
    # those observations only: a reactor whose real close() sets connected_event without recording last_error makes
    # the real factory hand out the closed connection.  The TLC run of that contract ("set_only") is the explanation.
    from harness.replay import reactor_close as rc
    probes = rc.probe_all()
    found, offenders = set(), []
    summary = {}
    for reactor, modes in sorted(probes.items()):
        for mode, obs in sorted(modes.items()):
            if "skipped" in obs or "error" in obs:
                summary["%s/%s" % (reactor, mode)] = obs.get("skipped") or ("inconclusive: " + obs["error"])[:300]
                continue
            summary["%s/%s" % (reactor, mode)] = "%s; factory %s%s" % (
                obs["contract"], obs["factory"], (" " + obs["factory_exc"]) if obs.get("factory_exc") else "")
            found.add(obs["contract"])
            if obs["contract"] == "set_only" and obs["factory"] == "returned":
                offenders.append((reactor, mode, obs))
    ctx.note("real_reactor_close_probes", summary)
    ctx.evaluations += len(summary)
    if offenders:
        cconsts = dict(wconsts, CloseKinds={"set_only"})
        ccfg = tlc.write_cfg(os.path.join(ctx.scratch, "hs_close.cfg"), constants=cconsts,
                             invariants=["FactoryReturnsOnlyAfterReady"], deadlock=False)
        cres = tlc.check_model("Handshake", ccfg, ctx.scratch, timeout=600)
        explanation = [dict(st["act"]["m"]) for _, st in cres.trace()][1:] if cres.invariant else None
        for reactor in sorted(set(r for r, _, _ in offenders)):
            obs = {m: o for r, m, o in offenders if r == reactor}
            ctx.violation("%s reactor: closed before READY (%s), the real close() sets connected_event without recording "
                          "last_error and the real Connection.factory returns the closed connection as ready: %s"
                          % (reactor, ", ".join(sorted(obs)), obs),
                          replay={"reactor": reactor, "observed": obs, "model_counterexample_set_only": explanation},
                          signature="reactor-close:%s:last-error-not-recorded:factory-returns-closed-connection" % reactor)
    # contracts replayed on the simulated connection: asyncore (record_set) and libev (no_set) from their source (neither
    # can be imported here) - the probed reactors must be among them, otherwise the model lacks a contract
    unknown = found - {"record_set", "no_set", "set_only", "defunct"}
    if unknown:
        raise tlc.MachineryError("real reactor shows a close contract the model does not have: %s" % unknown)
    finding_violations = ctx.violations

    # ---- spec -> code: every maximal behaviour
    paths = behaviours(states, consts["MaxLen"])
    covered = set()
    replayed = diverging = 0
    for path in paths:
        d = hs.replay(path)
        replayed += 1
        covered.update(id(s) for s in path)
        last = path[-1]
        if last["negotiated"] != "none" or last["accepted"] or last["outcome"] == "auth_failed":
            ctx.nontrivial(repr(describe(path)))
        if replayed % 4001 == 1:
            ctx.sample(dict(describe(path), direction="spec->code", outcome=last["outcome"]))
        if d:
            diverging += 1
            if diverging <= MAX_REPORT:
                ctx.violation("real connection diverges from Handshake.tla at reply %d (%s): %s" % (d["step"], d["action"], d["diff"]),
                              replay=dict(describe(path), divergence=d), signature=signature(d))
    if diverging > MAX_REPORT:
        print("... %d diverging behaviours in total" % diverging)
    if len(covered) != len(states):
        raise tlc.MachineryError("replay did not visit every state of the model (%d of %d)" % (len(covered), len(states)))
    ctx.traces_validated += replayed
    ctx.note("behaviours_replayed", replayed)
    ctx.note("spec_states_visited_by_replay", len(covered))
    ctx.note("exhaustive", True)

    # binding self-test (spec -> code): corrupted expectations must be noticed
    victim = next(p for p in paths if p[-1]["phase"] == "Ready" and p[-1]["compOn"] and p[-1]["cksum"] and p[-1]["probed"])
    bad = [dict(s) for s in victim]
    bad[-2]["compOn"] = False
    v2 = next(p for p in paths if p[-1]["outcome"] == "auth_failed" and p[-1]["prev"] == "AuthSent")
    bad2 = [dict(s) for s in v2]
    bad2[-1]["outcome"] = "conn_error"
    bad3 = [dict(s) for s in victim]
    bad3[-1]["sent"] = tuple(dict(f, seg=False) if f["op"] == "QUERY" else f for f in bad3[-1]["sent"])
    clean = ctx.violations == finding_violations          # with a diverging driver the untouched behaviours do not replay cleanly either
    if clean and (not (hs.replay(bad) and hs.replay(bad2) and hs.replay(bad3)) or hs.replay(victim) or hs.replay(v2)):
        raise tlc.MachineryError("binding self-test failed: corrupted expectation not detected by replay")

    # ---- code -> spec: recorded random handshakes validated by TLC
    tconsts = {"Versions": {1, 2, 3, 4, 5, 6, 65, 66}, "MaxLen": 12, "Fine": False, "EarlySet": False,
               "CloseKinds": {"record_set", "no_set"}}
    n_tr = 400 if ctx.quick else 5000
    traces = [hs.record(ctx.rng, tconsts["Versions"], 10) for _ in range(n_tr)]
    good = len(traces)
    tv = next(t for t in traces if len(t) >= 4 and t[2]["post"]["outcome"] == "pending")
    c1 = copy.deepcopy(tv)
    c1[2]["post"]["compOn"] = not c1[2]["post"]["compOn"]
    c2 = copy.deepcopy(tv)
    del c2[1]
    c3 = copy.deepcopy(next(t for t in traces if t[-1]["e"] == "Probe"))
    c3[-1]["post"]["sent"][-1]["seg"] = not c3[-1]["post"]["sent"][-1]["seg"]
    traces += [c1, c2, c3]
    tcfg = tlc.write_cfg(os.path.join(ctx.scratch, "trace.cfg"), init="TraceInit", next="TraceNext", constants=tconsts,
                         invariants=INVARIANTS, constraints=["Progress"], postcondition="Done", deadlock=False)
    tres, prog = tlc.validate_traces("Trace_Handshake", tcfg, traces, ctx.scratch, timeout=1800)
    ctx.add_tlc(tres, "trace validation")
    if tres.violation:
        ctx.violation("invariant %s violated in a state of a recorded handshake" % tres.invariant,
                      replay={"trace": [dict(s) for _, s in tres.trace()][-3:]}, signature="trace-inv:%s" % tres.invariant)
        return
    rejected = sum(1 for i in range(good) if prog[i] != len(traces[i]) + 1)
    if clean and rejected == 0 and (prog[good] != 3 or prog[good + 1] > len(c2) or prog[good + 2] != len(c3)):
        raise tlc.MachineryError("binding self-test failed: corrupted/dropped trace accepted (%s)" % (prog[good:],))
    ctx.note("binding_selftest", {"replay_corruptions_detected": 3, "trace_corrupted_rejected": 2, "trace_dropped_rejected": 1}
             if clean and rejected == 0 else "skipped: divergences already reported")
    accepted = reported = 0
    for i in range(good):
        t = traces[i]
        if prog[i] == len(t) + 1:
            accepted += 1
            if any(e["post"]["negotiated"] != "none" or e["post"]["phase"] in ("AuthSent", "CredsSent") for e in t):
                ctx.nontrivial(("trace", i, len(t)))
            continue
        ev = t[prog[i] - 1]
        m = ev.get("m", {})
        reported += 1
        if reported > MAX_REPORT:
            continue
        ctx.violation("recorded handshake rejected by Handshake.tla at event %d: %s" % (prog[i], ev),
                      replay={"events": t[:prog[i]]},
                      signature="trace:%s%s" % (m.get("k", ev["e"]), ("(%s)" % m["kind"]) if m.get("kind") else ""))
    ctx.sample({"direction": "code->spec", "cfg": traces[0][0]["cfg"],
                "events": [e.get("m", e["e"]) for e in traces[0][1:]], "final": traces[0][-1]["post"]["outcome"]})
    ctx.traces_validated += accepted
    ctx.note("traces_recorded", good)
    ctx.note("traces_accepted", accepted)
    ctx.evaluations = replayed + good
    ctx.assumptions += [
        "reply sequences bounded by MaxLen; protocol versions 1-6 (v6 with allow_beta_protocol_version) and DSE_V1/DSE_V2 (0x41/0x42)",
        "SimConnection reproduces the reactors' close() contract; harness/wire.py encodes/decodes frames and segments correctly",
        "lz4/snappy replaced by stand-ins with the driver's calling convention (real libraries are not installed)",
        "ERROR kinds other than bad credentials after the credentials/auth response may be classified either way "
        "(the statement leaves it open); the code reports protocol errors (0x000A) as connection errors and the others as AuthenticationFailed",
    ]


def replay(ctx, obj):
    from harness.replay import handshake as hs
    if "events" in obj:
        for e in obj["events"]:
            print(e)
        return
    if "reactor" in obj:
        from harness.replay import reactor_close as rc
        now = rc.probe_all().get(obj["reactor"], {})
        for mode, obs in sorted(now.items()):
            print(obj["reactor"], mode, obs)
        if any(o.get("contract") == "set_only" and o.get("factory") == "returned" for o in now.values()):
            ctx.violation("replayed: the real %s close() still leaves last_error unset while setting connected_event"
                          % obj["reactor"], replay=obj)
        return
    cfg = dict(obj["cfg"], local=set(obj["cfg"]["local"]))
    replies = obj["replies"]
    run = hs.execute(cfg, lambda i, o: replies[i] if i < len(replies) else None, probe=obj.get("probe", False))
    print("cfg", cfg)
    for i, o in enumerate(run["obs"]):
        print("after reply %d %s:" % (i, replies[i - 1] if i else "-"), o)
    print("factory:", run["factory"], run["factory_exc"])
    print("factory-side decision at the instant connected_event was set:", run.get("wakes"))
    if run["probe"]:
        print("after probe:", run["probe"])
    if obj.get("divergence"):
        print("expected (spec):", obj["divergence"]["diff"])
        d = obj["divergence"]["diff"]
        seen = run["probe"] if obj["divergence"]["action"].get("k") == "Probe" else \
            (run["obs"][obj["divergence"]["step"]] if obj["divergence"]["step"] < len(run["obs"]) else run["final"])
        still = [k for k in d if k in seen and d[k].get("spec") != seen[k]]
        if "wake" in d and run.get("wakes") and run["wakes"][0] != d["wake"]["spec"]:
            still.append("wake")
        if still or "factory" in d:
            ctx.violation("replayed: still differs in %s" % (still or ["factory"]), replay=obj)
