"""Shared driver for XTIMER (spec/Timers.tla bound to the real Timer/TimerManager and _Scheduler).

TLC : exhaustive over small constants, once per part (timers / scheduler; they share only the clock).  First the
      intended design (PopOnRaise: a timer whose callback raises is finished like any other) must satisfy every
      invariant; then the model the code is bound to (a direct probe decides PopOnRaise) is explored and its state
      graph dumped.  Vacuity: coverage of every action, Witness_* predicates must be reachable.
Bind: spec -> code: every (state, environment action) pair of the graphs is executed on the real objects in chains
      (harness/replay/timers.py), comparing the projection of the real state with the spec state after each step.
      The only choice the code makes itself - which of several timers with the same end time service_timeouts
      serves first - is read off the real object and must be one the spec allows; the chain follows it.
      code -> spec: seeded random runs of the real objects (timers and scheduler over one clock, bigger constants)
      are recorded and validated by TLC against Trace_Timers.tla with all invariants on.
"""
import copy
import os
import threading
from collections import deque

from harness import tlc

T_INV = ["TTypeOK", "NotEarly", "FiresOnce", "CancelledNeverFires", "NoneLost", "NewUnfired", "FreshNotInPass",
         "PassOrdered", "PassComplete", "RetEarliest", "RetNoneIffEmpty", "DueServed"]
S_INV = ["STypeOK", "SNotEarly", "SOrder", "UniqueNoDup", "UniqueExact", "StasksCover", "LoopEndsOnlyOnShutdown",
         "SentinelSafe", "JoinedMeansEnded", "RanSubmitted"]
S_PROPS = ["NothingAfterShutdown"]
T_ACTIONS = ["Tick", "AddTimer", "Cancel", "SvcMerge", "SvcReadClock", "SvcStep"]
S_ACTIONS = ["Tick", "Schedule", "ScheduleUnique", "LTop", "LGet", "LChk", "LDispatch", "LWake", "RunTask", "XFlag", "XPut", "XJoin"]

RAISE_SIG = "service_timeouts:raising-callback-not-popped"
MAX_REPORT_PER_SIGNATURE = 2

LEVEL_TEXT = ("TLC explores every interleaving of create_timer / cancel / clock tick with the three stages of "
              "TimerManager.service_timeouts (merge of _new_timers, the single clock read, one finish() per turn; callbacks that "
              "raise, create timers and cancel timers) for 3 timers, and of schedule / schedule_unique / shutdown (flag, sentinel, "
              "join) / executor runs / clock ticks with the five stages of the _Scheduler thread for 2 tasks and 2-3 insertions, "
              "checking 12 + 11 properties (never early, exactly once, cancelled never fires, none lost, end-time order, result = "
              "earliest end, a timer created inside a pass waits for the next; never early, (time, insertion) order, "
              "schedule_unique exactness, the loop ends only on shutdown, nothing submitted after shutdown returned). Every "
              "(state, environment action) pair of those graphs is executed on the real objects with the projected state "
              "compared after each step, and random runs of the real objects over bigger constants are validated by TLC "
              "against Trace_Timers.tla with all invariants on.")

BASE = {"WithTimers": True, "WithSched": False, "MaxTime": 1, "NT": 1, "Delays": {0}, "Raise": set(), "MaxFire": 2,
        "SpawnCodes": set(), "SpawnDelay": 0, "KillCodes": set(), "PopOnRaise": True,
        "NK": 1, "SDelays": {0}, "MaxIns": 1, "RaiseTasks": set(), "AgainTasks": set(), "AgainDelay": 0, "MaxRuns": 1}


def tcfg(**kw):
    return dict(BASE, WithTimers=True, WithSched=False, **kw)


def scfg(**kw):
    return dict(BASE, WithTimers=False, WithSched=True, **kw)


def graph_configs(quick):
    """(label, constants) of the exhaustive runs whose graphs are replayed."""
    if quick:
        return [
            ("timers: 3 timers all due at once, callbacks create 1->3 and cancel 1->2, 3 raises",
             tcfg(NT=3, MaxTime=0, Delays={0}, SpawnCodes={13}, KillCodes={12}, Raise={3})),
            ("timers: 2 timers, timeouts 0-1, clock 0-2, 2 raises",
             tcfg(NT=2, MaxTime=2, Delays={0, 1}, Raise={2})),
            ("scheduler: 2 tasks, 2 insertions, delay 1",
             scfg(NK=2, MaxIns=2, MaxTime=1, SDelays={1}, RaiseTasks={1})),
            ("scheduler: 1 task raising and rescheduling itself, delays 0-1",
             scfg(NK=1, MaxIns=2, MaxTime=1, SDelays={0, 1}, RaiseTasks={1}, AgainTasks={1}, MaxRuns=2)),
        ]
    return [
        ("timers: 3 timers, timeouts 0-1, clock 0-1, 3 raises", tcfg(NT=3, MaxTime=1, Delays={0, 1}, Raise={3})),
        ("timers: 3 timers, callbacks create 1->3 (timeout 1) and cancel 1->2, 2 raises",
         tcfg(NT=3, MaxTime=1, Delays={0}, SpawnCodes={13}, SpawnDelay=1, KillCodes={12}, Raise={2})),
        ("timers: 2 timers, timeouts 0-2, clock 0-3, callbacks create 1->2, 1 raises twice",
         tcfg(NT=2, MaxTime=3, Delays={0, 1, 2}, SpawnCodes={12}, Raise={1}, MaxFire=3)),
        ("scheduler: 2 tasks, 2 insertions, delays 0-1", scfg(NK=2, MaxIns=2, MaxTime=1, SDelays={0, 1}, RaiseTasks={1})),
        ("scheduler: 1 task raising and rescheduling itself, 3 insertions, delays 0-1",
         scfg(NK=1, MaxIns=3, MaxTime=1, SDelays={0, 1}, RaiseTasks={1}, AgainTasks={1}, AgainDelay=1, MaxRuns=2)),
    ]


def big_configs():
    """Exhaustive checks without replay (thorough tier)."""
    return [
        ("timers: 3 timers, timeouts 0-1, clock 0-2, create 1->3, cancel 2->1, 3 raises",
         tcfg(NT=3, MaxTime=2, Delays={0, 1}, SpawnCodes={13}, KillCodes={21}, Raise={3})),
        ("scheduler: 2 tasks, 3 insertions, delays 0-1, clock 0-2, raise + reschedule",
         scfg(NK=2, MaxIns=3, MaxTime=2, SDelays={0, 1}, RaiseTasks={1}, AgainTasks={2}, MaxRuns=2)),
    ]


T_WITNESSES = ["Witness_CancelledDropped", "Witness_TwoInOnePass", "Witness_TieInOnePass", "Witness_Wait", "Witness_CancelLosesRace",
               "Witness_SpawnedInPass", "Witness_SpawnedFiresLater", "Witness_KilledByCallback", "Witness_AddDuringPass",
               "Witness_TickDuringPass", "Witness_DueButNextPass", "Witness_RaiserFired"]
S_WITNESSES = ["Witness_UniqueIgnored", "Witness_UniqueRequeued", "Witness_PutBack", "Witness_TaskRaised", "Witness_LoopAfterRaise",
               "Witness_ShutdownDropsDue", "Witness_SubmitAfterFlag", "Witness_RefusedAfterShutdown", "Witness_Overtaken",
               "Witness_Again", "Witness_MixedDuplicate", "Witness_Joined"]
# constants under which every witness is reachable (TLC stops at the first state violating the predicate)
T_WITNESS_CONSTS = tcfg(NT=3, MaxTime=2, Delays={0, 1}, SpawnCodes={13}, KillCodes={12}, Raise={3})
S_WITNESS_CONSTS = scfg(NK=2, MaxIns=4, MaxTime=2, SDelays={0, 1}, RaiseTasks={1}, AgainTasks={2}, MaxRuns=2)


def _parallel(jobs, width=4):
    """Run callables concurrently (each starts one TLC); returns their results in order, re-raising the first error."""
    out = [None] * len(jobs)
    errs = []
    sem = threading.Semaphore(width)

    def runner(i, fn):
        with sem:
            try:
                out[i] = fn()
            except BaseException as ex:          # noqa
                errs.append(ex)
    ths = [threading.Thread(target=runner, args=(i, fn)) for i, fn in enumerate(jobs)]
    for t in ths:
        t.start()
    for t in ths:
        t.join()
    if errs:
        raise errs[0]
    return out


def _subdir(ctx, name):
    d = os.path.join(ctx.scratch, name)
    os.makedirs(d, exist_ok=True)
    return d


def _invs(consts):
    return (T_INV if consts["WithTimers"] else []) + (S_INV if consts["WithSched"] else [])


def _props(consts):
    return S_PROPS if consts["WithSched"] else []


def _js(consts):
    """Constants as they go into a replay file (sets as sorted lists)."""
    return {k: (sorted(v) if isinstance(v, (set, frozenset)) else v) for k, v in consts.items()}


def _acts_of(res):
    return [dict(s.get("act", {})) for _, s in res.trace()]


# ---------------------------------------------------------------------- spec -> code
class _Reporter:
    def __init__(self, ctx):
        self.ctx = ctx
        self.by_sig = {}

    def __call__(self, label, consts, history, divergence):
        act = divergence["action"]
        sig = "replay:%s:%s" % (act["name"], ",".join(sorted(divergence["diff"])))
        n = self.by_sig[sig] = self.by_sig.get(sig, 0) + 1
        if n <= MAX_REPORT_PER_SIGNATURE:
            self.ctx.violation("%s: after %s the real objects differ from Timers.tla: %s" % (label, act, divergence["diff"]),
                               replay={"xtimer": "replay", "constants": _js(consts), "actions": history, "divergence": divergence},
                               signature=sig)


def cover(ctx, label, consts, nodes, edges, init, report, max_len=200):
    """Execute every (abstract state, environment action) pair of the graph on real objects, in chains.

    An abstract state is a spec state without `act`.  The environment chooses the action; for SvcStep the code
    chooses which of the allowed heads (equal end times) it serves, the chain follows that choice.  The code is
    deterministic, so the action list that first led to a state leads there again: a chain replays the route to a
    state that still has unexecuted pairs, executes them one after the other and keeps going from the successor.
    Pairs left at the end belong to states that no spec-conformant history of the real objects reaches (they lie
    behind an equal-end choice the real heap never makes)."""
    from harness.replay import timers as rt
    key_of = {}
    ids = {}

    def kid(nid):
        k = key_of.get(nid)
        if k is None:
            sk = rt.state_key(nodes[nid])
            k = ids.setdefault(sk, len(ids))
            key_of[nid] = k
        return k
    succ = {}          # ks -> {env_key: {choice: (kd, act, node id of kd)}}
    for s, d, _ in edges:
        act = nodes[d]["act"]
        ek = rt.env_key(act)
        succ.setdefault(kid(s), {}).setdefault(ek, {})[act["a"] if ek == ("SvcStep",) else None] = (kid(d), dict(act), d)
    start = kid(init[0])
    views = {}

    def view(nid):
        k = key_of[nid]
        v = views.get(k)
        if v is None:
            v = views[k] = rt.spec_view(nodes[nid], consts)
        return v
    total = sum(len(g) for g in succ.values())
    # Exploration runs over (abstract state, layout of the real heap and _new_timers list): the layout decides which of
    # several equal-end timers the real heap serves first, the abstract state does not.  Every environment action is
    # executed in every such concrete state the real objects reach.
    c0 = (start, ())
    route = {}                   # concrete state -> environment actions of the chain that first reached it
    unc = {}                     # concrete state -> environment actions not yet executed there
    todo = deque()
    stats = {"chains": 0, "steps": 0, "choices_followed": 0, "divergences": 0, "route_mismatch": 0,
             "tie_states": sum(1 for g in succ.values() if len(g.get(("SvcStep",), {})) > 1)}
    done_pairs = set()           # (abstract state, env_key) executed at least once
    reached = set()

    def arrive(ck, eks):
        if ck not in route:
            route[ck] = tuple(eks)
            unc[ck] = sorted(succ.get(ck[0], {}), key=repr)
            reached.add(ck[0])
            if unc[ck]:
                todo.append(ck)

    arrive(c0, ())
    first = True
    while todo:
        target = todo[0]
        if not unc[target]:
            todo.popleft()
            continue
        h = rt.Harness(consts)
        stats["chains"] += 1
        cur = c0
        history = []
        eks = []
        nontrivial = False
        plan = list(route[target])
        fresh_here = 0
        try:
            if first:
                first = False
                d0 = rt.diff(view(init[0]), h.project())
                if d0:
                    report(label, consts, [], {"step": 0, "action": {"name": "Init", "a": 0, "b": 0, "k": ""}, "diff": d0})
                    stats["divergences"] += 1
                    break
            while len(history) < max_len:
                if plan:
                    ek = plan.pop(0)
                elif unc[cur]:
                    ek = unc[cur].pop()
                    fresh_here += 1
                else:
                    break
                choices = succ[cur[0]].get(ek)
                if choices is None:          # cannot happen while the code is deterministic
                    stats["route_mismatch"] += 1
                    break
                if ek == ("SvcStep",):
                    ch = h.head()
                    if ch not in choices:
                        dv = {"step": len(history) + 1, "action": {"name": "SvcStep", "a": ch, "b": 0, "k": "?"},
                              "diff": {"head": {"spec": sorted(choices), "code": ch}}}
                        report(label, consts, history, dv)
                        stats["divergences"] += 1
                        break
                    if len(choices) > 1:
                        stats["choices_followed"] += 1
                else:
                    ch = None
                kd, act, dn = choices[ch]
                try:
                    h.do(act)
                    d = rt.diff(view(dn), h.project())
                except rt.HarnessStuck as ex:
                    d = {"_refused": {"spec": "enabled", "code": "harness could not perform: %s" % ex}}
                except Exception as ex:      # noqa - the code under test raised where the spec has a step
                    d = {"_raised": {"spec": "enabled", "code": "%s: %s" % (type(ex).__name__, ex)}}
                history.append(act)
                eks.append(ek)
                stats["steps"] += 1
                done_pairs.add((cur[0], ek))
                if act["name"] in ("Cancel", "SvcStep", "LDispatch", "XFlag", "RunTask"):
                    nontrivial = True
                if d:
                    report(label, consts, history[:-1], {"step": len(history), "action": act, "diff": d})
                    stats["divergences"] += 1
                    break
                cur = (kd, h.layout())
                arrive(cur, eks)
        finally:
            h.close()
        if stats["divergences"] > 50:
            break
        if not fresh_here and todo and todo[0] == target:      # no progress on this target: do not try it for ever
            stats["route_mismatch"] += 1
            todo.popleft()
        if nontrivial:
            ctx.nontrivial((label, stats["chains"]))
        if stats["chains"] % 400 == 1:
            ctx.sample({"direction": "spec->code", "part": label, "actions": history[:25]})
    stats["pairs"] = total
    stats["pairs_executed"] = len(done_pairs)
    stats["pairs_left_reachable"] = sum(len(v) for v in unc.values())
    stats["abstract_states"] = len(ids)
    stats["abstract_states_reached"] = len(reached)
    stats["concrete_states_reached"] = len(route)
    return stats


# ---------------------------------------------------------------------- the check
def run(ctx):
    from harness.replay import timers as rt
    # ---- which model is the code bound to?  (direct probe, real classes)
    try:
        pops, calls = rt.pops_on_raise()
    except Exception as ex:
        pops, calls = False, "probe failed: %s: %s" % (type(ex).__name__, ex)
    ctx.note("code_follows_PopOnRaise", pops)
    if not pops:
        ctx.violation("TimerManager.service_timeouts does not finish a timer whose callback raised: the exception skips "
                      "heappop, the `while queue` loop meets the same head again and calls the callback again (%s calls for a "
                      "callback that raises twice; for ever - with the event loop stuck - if it always raises)" % calls,
                      replay={"xtimer": "probe", "probe": "raise"}, signature=RAISE_SIG)

    graphs = graph_configs(ctx.quick)
    # ---- TLC: intended design satisfies everything (timer configurations with a raising callback)
    jobs = []
    intended = [(lab, c) for lab, c in graphs if c["WithTimers"] and c["Raise"]][:1 if ctx.quick else 3]

    def intended_job(i, lab, c):
        d = _subdir(ctx, "intended%d" % i)
        cfg = tlc.write_cfg(os.path.join(d, "m.cfg"), constants=dict(c, PopOnRaise=True), invariants=_invs(c) + ["FiresOnceAll"],
                            deadlock=False)
        return tlc.check_model("Timers", cfg, d, timeout=1500, workers=4)

    def graph_job(i, lab, c):
        d = _subdir(ctx, "graph%d" % i)
        cc = dict(c, PopOnRaise=pops)
        cfg = tlc.write_cfg(os.path.join(d, "m.cfg"), constants=cc, invariants=_invs(cc), properties=_props(cc), deadlock=False)
        return tlc.state_graph("Timers", cfg, d, coverage=True, timeout=1500, workers=4)

    def big_job(i, lab, c):
        d = _subdir(ctx, "big%d" % i)
        cc = dict(c, PopOnRaise=pops)
        cfg = tlc.write_cfg(os.path.join(d, "m.cfg"), constants=cc, invariants=_invs(cc), properties=_props(cc), deadlock=False)
        return tlc.check_model("Timers", cfg, d, timeout=2400, workers=8)

    def witness_job(i, w, c):
        d = _subdir(ctx, "wit%d" % i)
        cfg = tlc.write_cfg(os.path.join(d, "m.cfg"), constants=c, invariants=[w], deadlock=False)
        return tlc.check_model("Timers", cfg, d, timeout=900, workers=2)

    for i, (lab, c) in enumerate(intended):
        jobs.append(lambda i=i, lab=lab, c=c: intended_job(i, lab, c))
    for i, (lab, c) in enumerate(graphs):
        jobs.append(lambda i=i, lab=lab, c=c: graph_job(i, lab, c))
    bigs = [] if ctx.quick else big_configs()
    for i, (lab, c) in enumerate(bigs):
        jobs.append(lambda i=i, lab=lab, c=c: big_job(i, lab, c))
    wits = []
    if not ctx.quick:
        wits = [(w, dict(T_WITNESS_CONSTS, PopOnRaise=pops)) for w in T_WITNESSES + ([] if pops else ["Witness_Refire"])] + \
               [(w, S_WITNESS_CONSTS) for w in S_WITNESSES]
        for i, (w, c) in enumerate(wits):
            jobs.append(lambda i=i, w=w, c=c: witness_job(i, w, c))
    trace_job, trace_eval = traces_prepare(ctx, pops)
    jobs.append(trace_job)
    import time as _time
    t_tlc = _time.time()
    results = _parallel(jobs, width=6)
    trace_result = results.pop()
    ctx.note("wall_tlc_exhaustive_s", round(_time.time() - t_tlc, 1))
    t_rep = _time.time()
    r_int = results[:len(intended)]
    r_graph = results[len(intended):len(intended) + len(graphs)]
    r_big = results[len(intended) + len(graphs):len(intended) + len(graphs) + len(bigs)]
    r_wit = results[len(intended) + len(graphs) + len(bigs):]

    spec_broken = False
    for (lab, c), res in zip(intended, r_int):
        ctx.add_tlc(res, "exhaustive, intended design (PopOnRaise), " + lab)
        if res.violation:
            spec_broken = True
            ctx.violation("TLC: %s violated on Timers.tla (intended design, %s)" % (res.invariant, lab),
                          replay={"xtimer": "spec", "constants": _js(c), "trace": _acts_of(res)}, signature="spec:%s" % res.invariant)
    for (lab, c), res in zip(bigs, r_big):
        ctx.add_tlc(res, "exhaustive, " + lab)
        if res.violation:
            spec_broken = True
            ctx.violation("TLC: %s violated on Timers.tla (%s)" % (res.invariant, lab),
                          replay={"xtimer": "spec", "constants": _js(c), "trace": _acts_of(res)}, signature="spec:%s" % res.invariant)
    for (w, c), res in zip(wits, r_wit):
        if not res.violation or res.invariant != w:
            raise tlc.MachineryError("vacuity witness %s is not reachable (%s)" % (w, res.error or "no violation"))
    if wits:
        ctx.note("vacuity_witnesses_violated_by_tlc", len(wits))
    ctx.note("constants", [{"label": lab, **{k: (sorted(v) if isinstance(v, set) else v) for k, v in c.items()}} for lab, c in graphs])

    report = _Reporter(ctx)
    tot = {"pairs": 0, "pairs_executed": 0, "chains": 0, "steps": 0, "choices_followed": 0, "tie_states": 0,
           "divergences": 0, "abstract_states": 0, "abstract_states_reached": 0, "pairs_left_reachable": 0}
    zero_all = []
    reached = set()
    for (lab, c), (res, nodes, edges, init) in zip(graphs, r_graph):
        ctx.add_tlc(res, "exhaustive, " + lab)
        if res.violation:
            spec_broken = True
            ctx.violation("TLC: %s violated on Timers.tla (%s)" % (res.invariant, lab),
                          replay={"xtimer": "spec", "constants": _js(c), "trace": _acts_of(res)}, signature="spec:%s" % res.invariant)
            continue
        cov = res.coverage()
        expected = [a for a in (T_ACTIONS if c["WithTimers"] else S_ACTIONS) if a != "Tick" or c["MaxTime"] > 0]
        zero = [a for a in expected if a in cov and cov[a][1] == 0]
        missing = [a for a in expected if a not in cov]
        if zero or missing:
            raise tlc.MachineryError("actions never taken in the exhaustive model (%s): %s %s" % (lab, zero, missing))
        zero_all += zero
        reached |= witnesses_reached(dict(c, PopOnRaise=pops), nodes)
        st = cover(ctx, lab, dict(c, PopOnRaise=pops), nodes, edges, init, report)
        for k in tot:
            tot[k] += st[k]
        ctx.note("replay[%s]" % lab, st)
    if spec_broken:
        return
    ctx.note("coverage_zero_actions", zero_all)
    need = set(T_WITNESSES + S_WITNESSES) | (set() if pops else {"Witness_Refire"})
    if ctx.quick:
        need -= {"Witness_MixedDuplicate"}       # needs three insertions; thorough graphs have them
    if need - reached:
        raise tlc.MachineryError("vacuity witnesses not reachable in the explored graphs: %s" % sorted(need - reached))
    ctx.note("vacuity_witnesses_reached", len(need))
    ctx.note("graph_pairs", tot["pairs"])
    ctx.note("graph_pairs_replayed", tot["pairs_executed"])
    ctx.note("exhaustive", tot["pairs_left_reachable"] == 0)
    ctx.note("equal_end_choices", {"states_with_a_choice": tot["tie_states"], "followed": tot["choices_followed"]})
    ctx.note("abstract_states", {"in_graphs": tot["abstract_states"], "reached_by_the_code": tot["abstract_states_reached"]})
    ctx.note("graph_pairs_behind_choices_the_code_never_makes", tot["pairs"] - tot["pairs_executed"] - tot["pairs_left_reachable"])
    if tot["pairs_left_reachable"] and not tot["divergences"]:
        raise tlc.MachineryError("replay stopped with %d reachable pairs not executed" % tot["pairs_left_reachable"])
    ctx.traces_validated += tot["chains"]
    ctx.note("behaviours_replayed", tot["chains"])
    ctx.note("replay_steps", tot["steps"])

    ctx.note("wall_replay_s", round(_time.time() - t_rep, 1))
    trace_eval(trace_result)
    ctx.evaluations = tot["steps"] + ctx.extra.get("traces_recorded", 0)
    ctx.assumptions += [
        "list.append / list.pop / heappush / heappop / set.add / set.discard / PriorityQueue.get/put are atomic (GIL, queue mutex)",
        "service_timeouts is called from one thread at a time (every reactor calls it from its loop thread only)",
        "schedule / schedule_unique calls do not overlap each other (schedule_unique is called from the control connection's "
        "event handlers only); they interleave freely with the scheduler thread, the executor and shutdown()",
        "one shutdown() call; the executor never refuses a submission",
        "small scope: <= 3 timers / 2 tasks in the exhaustive graphs, 5 timers / 3 tasks in recorded runs",
    ]


def witnesses_reached(c, nodes):
    """Witness_* predicates of Timers.tla evaluated on TLC's states (quick tier; thorough also asks TLC itself)."""
    def fn(v):
        return {i + 1: x for i, x in enumerate(v)} if isinstance(v, tuple) else dict(v)
    spawn = {t: {x % 10 for x in c["SpawnCodes"] if x // 10 == t} for t in range(1, c["NT"] + 1)}
    kill = {t: {x % 10 for x in c["KillCodes"] if x // 10 == t} for t in range(1, c["NT"] + 1)}

    def less(a, b):
        return a["at"] < b["at"] or (a["at"] == b["at"] and a["i"] < b["i"])
    out = set()
    for n in nodes.values():
        a = n["act"]
        if c["WithTimers"]:
            tst, tend, canc, fired, cfirst = fn(n["tst"]), fn(n["tend"]), fn(n["canc"]), fn(n["fired"]), fn(n["cfirst"])
            flog = list(n["flog"])
            heap = [t for t in tst if tst[t] == "heap"]
            if a["name"] == "SvcStep" and a["k"] == "drop":
                out.add("Witness_CancelledDropped")
            if len(flog) >= 2:
                out.add("Witness_TwoInOnePass")
                if any(flog[i] != flog[j] and tend[flog[i]] == tend[flog[j]] for i in range(len(flog)) for j in range(i + 1, len(flog))):
                    out.add("Witness_TieInOnePass")
            if a["name"] == "SvcStep" and a["k"] == "wait":
                out.add("Witness_Wait")
            if any(canc[t] and fired[t] == 1 and not cfirst[t] for t in tst):
                out.add("Witness_CancelLosesRace")
            parents = {t: [p for p in spawn if t in spawn[p] and fired[p] > 0] for t in tst}
            if any(tst[t] == "new" and n["svc"] == "loop" and parents[t] for t in tst):
                out.add("Witness_SpawnedInPass")
            if any(fired[t] > 0 and parents[t] for t in tst):
                out.add("Witness_SpawnedFiresLater")
            if any(cfirst[t] and tst[t] == "gone" and any(t in kill[p] and fired[p] > 0 for p in kill) for t in tst):
                out.add("Witness_KilledByCallback")
            if a["name"] == "AddTimer" and n["svc"] == "loop":
                out.add("Witness_AddDuringPass")
            if n["svc"] == "loop" and n["now"] > n["snow"]:
                out.add("Witness_TickDuringPass")
            if n["svc"] == "idle" and a["name"] == "SvcStep" and any(not canc[t] and tend[t] <= n["now"] for t in heap):
                out.add("Witness_DueButNextPass")
            if any(fired[t] >= 1 and tst[t] == "gone" for t in c["Raise"]):
                out.add("Witness_RaiserFired")
            if any(fired[t] >= 2 for t in tst):
                out.add("Witness_Refire")
        if c["WithSched"]:
            log = [dict(e) for e in n["log"]]
            q = [dict(e) for e in n["q"]]
            ran = fn(n["ran"])
            plain = set(n["plain"])
            cur = dict(n["cur"])
            pending = q + ([cur] if cur["k"] != 0 or cur["at"] != -2 else [])
            if a["name"] == "ScheduleUnique" and a["k"] == "ignored":
                out.add("Witness_UniqueIgnored")
            if any(log[i]["k"] == log[j]["k"] and log[i]["k"] not in plain for i in range(len(log)) for j in range(i + 1, len(log))):
                out.add("Witness_UniqueRequeued")
            if a["name"] == "LDispatch" and a["k"] == "putback":
                out.add("Witness_PutBack")
            if a["name"] == "RunTask" and a["k"] == "raise" and n["lpc"] != "ended":
                out.add("Witness_TaskRaised")
            if any(j > 0 and log[j]["k"] not in c["RaiseTasks"] and log[j - 1]["k"] in c["RaiseTasks"] and ran[log[j - 1]["k"]] > 0
                   for j in range(len(log))):
                out.add("Witness_LoopAfterRaise")
            if a["name"] == "LChk" and n["lpc"] == "ended" and any(e["k"] != 0 and e["at"] <= n["now"] for e in q):
                out.add("Witness_ShutdownDropsDue")
            if a["name"] == "LDispatch" and a["k"] == "submit" and n["shut"]:
                out.add("Witness_SubmitAfterFlag")
            if a["k"] == "refused":
                out.add("Witness_RefusedAfterShutdown")
            if any(not less(log[i], log[j]) for i in range(len(log)) for j in range(i + 1, len(log))):
                out.add("Witness_Overtaken")
            if any(ran[k] >= 2 for k in c["AgainTasks"]):
                out.add("Witness_Again")
            if a["name"] == "ScheduleUnique" and a["k"] == "queued" and sum(1 for e in pending if e["k"] == a["a"]) >= 2:
                out.add("Witness_MixedDuplicate")
            if n["xpc"] == "done":
                out.add("Witness_Joined")
    return out


# ---------------------------------------------------------------------- code -> spec
def trace_consts(quick, pops):
    return {"WithTimers": True, "WithSched": True, "MaxTime": 4, "NT": 5, "Delays": {0, 1, 2}, "Raise": {4, 5}, "MaxFire": 3,
            "SpawnCodes": {13, 24}, "SpawnDelay": 1, "KillCodes": {12, 35}, "PopOnRaise": pops,
            "NK": 3, "SDelays": {0, 1, 2}, "MaxIns": 7, "RaiseTasks": {1}, "AgainTasks": {2}, "AgainDelay": 1, "MaxRuns": 3}


def traces_prepare(ctx, pops):
    """Record the random runs and build the self-test traces; returns (job for _parallel, evaluation function)."""
    from harness.replay import timers as rt
    consts = trace_consts(ctx.quick, pops)
    n_tr = 250 if ctx.quick else 4000
    traces = [rt.record(consts, ctx.rng, max_events=60) for _ in range(n_tr)]
    good = len(traces)
    # binding self-test: a corrupted field (one per part) and a dropped event must be rejected
    victim = next(t for t in traces if len(t) >= 20 and not any(e["e"] == "Anomaly" for e in t)
                  and any(e["e"] in ("AddTimer", "SvcStep") for e in t) and any(e["e"] in ("Schedule", "ScheduleUnique", "LGet") for e in t))
    it = next(i for i, e in enumerate(victim) if e["e"] in ("AddTimer", "SvcStep"))
    is_ = next(i for i, e in enumerate(victim) if e["e"] in ("Schedule", "ScheduleUnique", "LGet"))
    bad1 = copy.deepcopy(victim)
    bad1[it]["post"]["tend"][bad1[it]["a"] - 1] += 1
    bad2 = copy.deepcopy(victim)
    bad2[is_]["post"]["cnt"] += 1
    bad3 = copy.deepcopy(victim)
    idrop = next(i for i, e in enumerate(bad3) if e["e"] in ("Tick", "AddTimer", "SvcMerge", "LTop", "LGet"))
    del bad3[idrop]
    traces += [bad1, bad2, bad3]

    def job():
        d = _subdir(ctx, "traces")
        cfg = tlc.write_cfg(os.path.join(d, "trace.cfg"), init="TraceInit", next="TraceNext", constants=consts,
                            invariants=T_INV + S_INV, constraints=["Progress"], postcondition="Done", deadlock=False)
        return tlc.validate_traces("Trace_Timers", cfg, traces, d, timeout=2400)

    def evaluate(result):
        tres, prog = result
        ctx.add_tlc(tres, "trace validation")
        if tres.violation:
            ctx.violation("invariant %s violated in a state of a recorded execution" % tres.invariant,
                          replay={"xtimer": "trace-inv", "trace": [dict(s) for _, s in tres.trace()][-3:]},
                          signature="trace-inv:%s" % tres.invariant)
            return
        if prog[good] != it + 1 or prog[good + 1] != is_ + 1 or prog[good + 2] > len(bad3):
            raise tlc.MachineryError("binding self-test failed: corrupted/dropped trace accepted (%s, %s, %s; expected %s, %s, <=%s)"
                                     % (prog[good], prog[good + 1], prog[good + 2], it + 1, is_ + 1, len(bad3)))
        ctx.note("binding_selftest", {"corrupted_rejected": 2, "dropped_rejected": 1})
        accepted = 0
        by_sig = {}
        for i in range(good):
            t = traces[i]
            if prog[i] == len(t) + 1:
                accepted += 1
                if any(e["e"] in ("Cancel", "XFlag", "RunTask") for e in t):
                    ctx.nontrivial(("trace", i, len(t)))
                continue
            ev = t[prog[i] - 1]
            name = ev.get("during", {}).get("e") if ev["e"] == "Anomaly" else ev["e"]
            sig = "trace:%s" % name
            by_sig[sig] = by_sig.get(sig, 0) + 1
            if by_sig[sig] <= MAX_REPORT_PER_SIGNATURE:
                ctx.violation("recorded execution of the real objects rejected by Timers.tla at event %d: %s" % (prog[i], ev),
                              replay={"xtimer": "trace", "constants": _js(consts), "events": t[:prog[i]]}, signature=sig)
        ctx.sample({"direction": "code->spec", "events": [{k: v for k, v in e.items() if k != "post"} for e in traces[0][:20]]})
        ctx.traces_validated += accepted
        ctx.note("traces_recorded", good)
        ctx.note("traces_accepted", accepted)
        ctx.note("trace_constants", {k: (sorted(v) if isinstance(v, set) else v) for k, v in consts.items()})
    return job, evaluate


# ---------------------------------------------------------------------- replay of a violation file
def replay(ctx, obj):
    from harness.replay import timers as rt
    kind = obj.get("xtimer")
    if kind == "probe":
        pops, calls = rt.pops_on_raise()
        print("callback raising twice was called %s times; timer finished after the first call: %s" % (calls, pops))
        if not pops:
            ctx.violation("replayed: a timer whose callback raised is served again", replay=obj, signature=RAISE_SIG)
        return
    if kind == "spec":
        for a in obj["trace"]:
            print(a)
        return
    consts = dict(obj["constants"])
    for k in ("Delays", "Raise", "SpawnCodes", "KillCodes", "SDelays", "RaiseTasks", "AgainTasks"):
        consts[k] = set(consts.get(k, ()))
    if kind == "replay":
        h = rt.Harness(consts)
        try:
            acts = obj["actions"] + [obj["divergence"]["action"]]
            for a in acts:
                print("->", a)
                try:
                    h.do(a)
                except Exception as ex:
                    print("   raised %s: %s" % (type(ex).__name__, ex))
                    break
                print("   ", h.project())
            print("recorded difference:", obj["divergence"]["diff"])
            import json
            from harness.tlaval import to_py
            real = json.loads(json.dumps(to_py(h.project()), default=repr))
            still = {k: {"spec": v["spec"], "code": real.get(k)} for k, v in obj["divergence"]["diff"].items()
                     if k in real and real.get(k) != v["spec"]}
        finally:
            h.close()
        if still:
            ctx.violation("replayed: still differs: %s" % still, replay=obj, signature="replayed")
        else:
            print("the real objects now agree with the specification on these fields")
        return
    for e in obj.get("events", ()):
        print({k: v for k, v in e.items() if k != "post"})
        print("    ", e.get("post"))
