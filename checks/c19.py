"""C19 - unknown prepared statements are transparently re-prepared (spec/Reprepare.tla)."""
import copy
import os

from harness import tlc
from checks import _pg

META = {
    "property_id": "C19",
    "engine": "Reprepare",
    "technique": "TLA+ spec of the UNPREPARED -> executor hop -> PREPARE -> executor hop -> re-sent EXECUTE path with all environment "
                 "choices, checked exhaustively by TLC; every edge of the state graph replayed on a real Session/ResponseFuture/"
                 "HostConnection over simulated nodes (protocol v4 and v5), plus recorded random schedules validated against the spec",
    "level": "model_checking",
    "level_text": "TLC explores, for protocol v4/v5 x statement with/without keyspace x connection keyspace none/same/other x stream "
                  "id space of the pool connections 1 / 2 / default (so that EXECUTE, PREPARE and the re-sent EXECUTE travel under "
                  "stream id 0 in some behaviours) and with / without one speculative execution of an idempotent statement (a "
                  "second attempt in flight on another node, so that the node last queried is not the node that answers "
                  "UNPREPARED), every "
                  "sequence of: UNPREPARED answers (up to MaxUnprep, on any host of the plan), the two executor hops, PREPARE answered "
                  "with the same id / another id / an error / silence until the client timeout (and a late answer afterwards) / "
                  "connection loss, pool shutdown between the hops, rows. Checked on the send log and the outcome: one PREPARE per "
                  "UNPREPARED, same query text, keyspace iff v5, to the node that answered; on success exactly one EXECUTE re-sent to the "
                  "same host; id mismatch and (v4) keyspace mismatch end the request with that error and nothing further is sent; a "
                  "PREPARE error surfaces; connection loss / unusable pool move the request to the next host. Every edge is replayed "
                  "on the real objects comparing the frames the nodes decoded (opcode, query text, keyspace field, statement id), the "
                  "owed answers, the queued executor tasks, the outcome class, the remaining plan and the pool states after each step; "
                  "random schedules on 3 hosts are recorded and validated by TLC (Trace_Reprepare), invariants on.",
    "level_note": "Trusted: TLC; the SimConnection/FakeNode/SimExecutor doubles and the independent codec in harness/wire.py; loop-thread "
                  "callbacks atomic; one executor task of the future at a time. With protocol v4 Session.prepare() cannot record a "
                  "statement keyspace, the v4 keyspace cases set PreparedStatement.keyspace after preparing. Other error answers to "
                  "the EXECUTE and retries are C14-C17. Scope: one re-preparation at a time (the second attempt in flight is not "
                  "answered UNPREPARED while one is under way, nor after the request failed); speculative executions only with "
                  "the shrunk id spaces (with the default one, which handler _on_timeout finds under a _req_id allocated on "
                  "another connection is a coincidence of two id counters).",
    "design_ref": "5.3 C19",
}

INV = ["TypeOK", "PrepareWellFormed", "PrepareOnAnsweringNode", "OnePreparePerUnprepared", "SendOrder", "ResentOnSuccess", "PrepareErrorSurfaces",
       "LossMovesOn", "MismatchStops", "KeyspaceRule", "IdsInSpace"]
PROPS = ["NothingAfterStop"]
WITNESSES = ["Witness_Mismatch", "Witness_KsMismatch", "Witness_NextHostAfterLoss", "Witness_SecondRound", "Witness_NoHost",
             "Witness_LateAnswerAfterTimeout", "Witness_V5Keyspace", "Witness_PoolDownBeforePrepare",
             "Witness_ResendOnStreamZero", "Witness_TimeoutTakesPrepareHandler", "Witness_ReprepareBehindSpeculation",
             "Witness_SpeculativeAnswered"]
NAMED_ACTIONS = ("Start", "SpecExec", "RunReprepare", "RunAfter", "ConnLost", "PoolDown", "Timeout")
ACT_NAMES = {"Start", "SpecExec", "AnsUnprepared", "AnsRows", "RunReprepare", "AnsPrepare", "ConnLost", "PoolDown", "RunAfter", "Timeout"}
RULE = ("spec->code: one case = one walk through the exhaustive state graph (configuration + schedule), the walks together cover "
        "every edge; code->spec: one case = one random schedule on the real objects. Non-trivial = a PREPARE was sent and something "
        "other than 'same id, then rows' happened to it or after it (other id, error, connection loss, pool shutdown, timeout, "
        "second UNPREPARED), or the v4 keyspace rule fired; distinct by (configuration, schedule).")
MISMATCH_SIG = "reprepare:id-mismatch:execute-resent"


def _acts(states):
    return [{k: s["act"][k] for k in ("name", "h", "resp")} for s in states[1:]]


def _nontrivial(names_resps, final):
    interesting = {"ConnLost", "PoolDown", "Timeout"}
    return final == "ValueError" or any(n in interesting or r in ("diff", "error") for n, r in names_resps) or \
        sum(1 for n, _ in names_resps if n == "AnsUnprepared") >= 2


def _trace_sig(t, k):
    """Signature of a trace rejected at event index k (0-based)."""
    ev = t[k]
    if ev["e"] == "Anomaly":
        return "trace:Anomaly:%s" % ev["during"]["e"]
    if ev["e"] == "RunAfter" and ev.get("resp") == "diff":
        before = t[k - 1]["post"] if k > 0 else {"sent": []}
        if len(ev["post"]["sent"]) > len(before["sent"]) or ev["post"]["final"] == "NoHostAvailable":
            return MISMATCH_SIG
    return "trace:%s/%s" % (ev["e"], ev.get("resp"))


def run(ctx):
    from harness.replay import reprepare as rr
    nhosts = 2 if ctx.quick else 3
    consts = {"NHosts": nhosts, "MaxUnprep": 2, "SpecIds": {1} if ctx.quick else {1, 2}}    # recorded runs: 3 UNPREPARED answers
    cfg = tlc.write_cfg(os.path.join(ctx.scratch, "reprepare.cfg"), constants=consts, invariants=INV, properties=PROPS,
                        deadlock=False)
    res, nodes, edges, init = tlc.state_graph("Reprepare", cfg, ctx.scratch, coverage=True, timeout=1200)
    ctx.add_tlc(res, "exhaustive NHosts=%d MaxUnprep=%d" % (consts["NHosts"], consts["MaxUnprep"]))
    ctx.note("constants", consts)
    ctx.note("rule", RULE)
    ctx.note("configurations", len(init))
    if res.violation:
        ctx.violation("TLC: %s violated on Reprepare.tla" % res.invariant,
                      replay={"trace": [dict(s.get("act", {})) for _, s in res.trace()]}, signature="spec:%s" % res.invariant)
        return
    cov = res.coverage()
    zero = [a for a in NAMED_ACTIONS if a not in cov or cov[a][1] == 0]
    seen_names = {s["act"]["name"] for s in nodes.values()}
    zero += sorted(ACT_NAMES - seen_names)
    if zero:
        raise tlc.MachineryError("actions never taken in the exhaustive model: %s" % zero)
    _pg.reach_witnesses(ctx, "Reprepare", consts, WITNESSES)

    # ---- spec -> code: replay walks covering every edge of the exhaustive graph
    walks = rr.cover_walks(nodes, edges, init)
    walks.sort(key=lambda w: sorted(nodes[w[0]]["cfg"].items()))            # keeps the simulated clusters warm
    covered = set()
    for w in walks:
        covered.update(zip(w, w[1:]))
    all_edges = set((s, d) for s, d, _ in edges)
    ctx.note("graph_edges", len(all_edges))
    ctx.note("graph_edges_replayed", len(covered))
    ctx.note("exhaustive", covered == all_edges)
    if covered != all_edges:
        raise tlc.MachineryError("walks cover %d of %d edges" % (len(covered), len(all_edges)))
    replayed = agreed = 0
    by_sig = {}
    for w in walks:
        states = [nodes[n] for n in w]
        try:
            d = rr.replay(nhosts, states)
        except Exception as ex:           # noqa: BLE001 - real objects left the envelope the harness can drive
            d = {"step": -1, "action": "harness", "diff": {"exception": "%s: %s" % (type(ex).__name__, ex)}}
        replayed += 1
        acts = _acts(states)
        if _nontrivial([(a["name"], a["resp"]) for a in acts], states[-1]["final"]):
            ctx.nontrivial((tuple(sorted(states[0]["cfg"].items())),) + tuple((a["name"], a["h"], a["resp"]) for a in acts))
        if replayed % 300 == 1:
            ctx.sample({"direction": "spec->code", "cfg": dict(states[0]["cfg"]), "actions": acts})
        if not d:
            agreed += 1
            continue
        sig = rr.classify(d, states)
        by_sig[sig] = by_sig.get(sig, 0) + 1
        if by_sig[sig] == 1:
            ctx.violation("replay diverges at step %s (%s), configuration %s: %s"
                          % (d["step"], d["action"], dict(states[0]["cfg"]), d["diff"]),
                          replay={"nhosts": nhosts, "cfg": dict(states[0]["cfg"]), "actions": acts[:max(d["step"], 0)],
                                  "divergence": d}, signature=sig)
    ctx.traces_validated += agreed
    ctx.note("behaviours_replayed", replayed)
    ctx.note("behaviours_agreeing", agreed)
    ctx.note("replay_divergences_by_signature", by_sig)

    # binding self-test (spec -> code): a wrong expectation must be noticed
    start = next(i for i in init if dict(nodes[i]["cfg"]) == {"pv": 5, "sks": "ks", "cks": "ks", "ids": 1, "spec": 0})
    sw = _pg.follow(nodes, edges, start, [{"name": "Start"}, {"name": "AnsUnprepared", "h": "h1"}, {"name": "RunReprepare"},
                                          {"name": "AnsPrepare", "resp": "same"}, {"name": "RunAfter"}, {"name": "AnsRows"}])
    forged = [dict(nodes[n]) for n in sw[:4]]
    forged[-1]["sent"] = tuple(forged[-1]["sent"][:-1]) + (dict(forged[-1]["sent"][-1], ks="ks2"),)
    try:
        noticed = rr.replay(nhosts, forged) is not None
    except Exception:                     # noqa: BLE001
        noticed = True
    if not noticed:
        raise tlc.MachineryError("binding self-test failed: forged PREPARE keyspace expectation was not noticed by replay")

    # ---- code -> spec: recorded random schedules validated by TLC against Trace_Reprepare.tla
    tconsts = {"NHosts": 3, "MaxUnprep": 3, "SpecIds": {1, 2}}
    n_tr = 600 if ctx.quick else 12000
    traces, cfgs = [], []
    for _ in range(n_tr):
        c, ev = rr.record(ctx.rng, nhosts=3, max_unprep=3)
        traces.append(ev)
        cfgs.append(c)
    good = len(traces)
    # self-test on a trace synthesized from a specification behaviour (independent of the code under test)
    synth = _pg.widen_reprepare_trace(rr.trace_of_states([nodes[n] for n in sw]), nhosts, tconsts["NHosts"])
    bad1 = copy.deepcopy(synth)
    bad1[2]["post"]["sent"][-1]["h"] = "h2"                    # PREPARE claimed to have gone to another host
    bad2 = copy.deepcopy(synth)
    del bad2[2]                                               # the _reprepare hop is missing
    bad3 = copy.deepcopy(synth)
    bad3[4]["post"]["sent"] = bad3[4]["post"]["sent"] + [dict(bad3[4]["post"]["sent"][-1])]     # EXECUTE re-sent twice
    traces += [synth, bad1, bad2, bad3]
    tcfg = tlc.write_cfg(os.path.join(ctx.scratch, "trace.cfg"), init="TraceInit", next="TraceNext", constants=tconsts,
                         invariants=INV, constraints=["Progress"], postcondition="Done", deadlock=False)
    tres, prog = tlc.validate_traces("Trace_Reprepare", tcfg, traces, ctx.scratch, timeout=1800)
    ctx.add_tlc(tres, "trace validation")
    if tres.violation:
        ctx.violation("invariant %s violated in a state of a recorded execution" % tres.invariant,
                      replay={"trace": [dict(s) for _, s in tres.trace()][-3:]}, signature="trace-inv:%s" % tres.invariant)
        return
    if prog[good] != len(synth) + 1 or prog[good + 1] != 3 or prog[good + 2] != 3 or prog[good + 3] != 5:
        raise tlc.MachineryError("binding self-test failed: synthesized trace rejected or forged/dropped/duplicated event accepted "
                                 "(%s, expected %s)" % (prog[good:], [len(synth) + 1, 3, 3, 5]))
    ctx.note("binding_selftest", {"forged_expectation_noticed": 1, "synthesized_accepted": 1, "wrong_host_rejected": 1,
                                  "dropped_hop_rejected": 1, "double_resend_rejected": 1})
    accepted = 0
    tr_sig = {}
    for i in range(good):
        t = traces[i]
        if prog[i] == len(t) + 1 and (not t or t[-1]["e"] != "Anomaly"):
            accepted += 1
            if _nontrivial([(e["e"], e.get("resp")) for e in t], t[-1]["post"]["final"] if t else "unset"):
                ctx.nontrivial(("trace", tuple(sorted(cfgs[i].items())), tuple((e["e"], e["h"], e["resp"]) for e in t)))
            continue
        k = min(prog[i], len(t)) - 1
        sig = _trace_sig(t, k)
        tr_sig[sig] = tr_sig.get(sig, 0) + 1
        if tr_sig[sig] == 1 and sig not in by_sig:
            ctx.violation("recorded execution (configuration %s) rejected by the specification at event %d: %s"
                          % (cfgs[i], prog[i], t[k]),
                          replay={"nhosts": 3, "cfg": cfgs[i], "events": t[:k + 1]}, signature=sig)
    ctx.sample({"direction": "code->spec", "cfg": cfgs[0],
                "events": [{k: v for k, v in e.items() if k != "post"} for e in traces[0][:14]]})
    ctx.traces_validated += accepted
    ctx.note("traces_recorded", good)
    ctx.note("traces_accepted", accepted)
    ctx.note("trace_rejections_by_signature", tr_sig)
    ctx.evaluations = replayed + good
    ctx.assumptions += [
        "loop-thread callbacks (_set_result, the PREPARE callback, _on_timeout) are atomic w.r.t. each other; executor tasks run one at a time",
        "SimConnection/FakeNode/SimExecutor reproduce the reactor / thread-pool contract; harness/wire.py decodes PREPARE and EXECUTE frames correctly",
        "the plan is h1, h2, .. (load balancing policy double); conviction policy never marks a host down on one connection error",
        "v4 statements with a keyspace are made by setting PreparedStatement.keyspace after Session.prepare()",
        "small scope: <= 3 hosts, <= 3 UNPREPARED answers; only UNPREPARED and rows as answers to the EXECUTE",
        "id spaces 1 and 2 are produced by overwriting request_ids / highest_request_id of the idle pool connections",
    ]
    rr.Env.discard_all()


def replay(ctx, obj):
    from harness.replay import reprepare as rr
    h = rr.ReprepareHarness(obj["nhosts"], obj["cfg"])
    acts = obj.get("actions")
    if acts is None:
        acts = [{"name": e["e"], "h": e["h"], "resp": e["resp"]} if e["e"] != "Anomaly" else
                {"name": e["during"]["e"], "h": e["during"]["h"], "resp": e["during"]["resp"]} for e in obj["events"]]
    print("configuration", obj["cfg"], "hosts", obj["nhosts"])
    for a in acts:
        print("->", a["name"], a["h"], a["resp"])
        h.do(a)
        p = h.project()
        print("    sent :", [(m["h"], m["kind"], m["q"], m["ks"]) for m in p["sent"]])
        print("    owed :", sorted(p["srv"]), " queue:", list(p["queue"]), " final:", p["final"], " plan:", p["plan"], " pool:", p["pool"])
    if obj.get("divergence"):
        print("expected by the specification:", obj["divergence"]["diff"])
    rr.Env.discard_all()
