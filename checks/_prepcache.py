"""Prepared-statement cache (spec/PrepareCache.tla) bound to the real driver - `run_prepcache(ctx)`.

Spec growth beyond the listed properties; meant to be called from the thorough tier of C19 (re-preparation).
TLC : exhaustive over 2 hosts x 3 statements (one whose text names its keyspace, one prepared under the session's
      keyspace, and - v5 - the same text prepared under another, explicitly passed keyspace; v4 - a second session-
      keyspace statement), prepare_on_all_hosts on (v4, v5) and off (v4): invariants CacheExact, IdsUnique,
      PreparedIsCached, PreparedEverywhere, UpHostKnowsCache, ExecutesOnce, DownForgets; vacuity witnesses.
Bind: spec -> code: every (state, action) pair of those graphs is executed on a real simulated cluster in chains
      (Session.prepare, execute with host=, dropping the PreparedStatement + gc, node restart, reconnection/on_up, node-
      side eviction), comparing Host.is_up, every node's prepared set, the keys and values of
      Cluster._prepared_statements, the coordinator and returned id of a prepare, UNPREPARED/rows of an execute, and the
      (query, keyspace) of every PREPARE a node received while coming up.
      code -> spec: seeded random runs over 3 hosts are recorded and validated by TLC against Trace_PrepareCache.tla.
"""
import copy
import os
from collections import deque

from harness import tlc

INVARIANTS = ["TypeOK", "CacheExact", "IdsUnique", "PreparedIsCached", "PreparedEverywhere", "UpHostKnowsCache",
              "ExecutesOnce", "DownForgets"]
WITNESSES = ["Witness_ReprepareTwoKeyspaces", "Witness_UnpreparedExecute", "Witness_DroppedNotReprepared",
             "Witness_PrepareWhileDown"]
MAX_REPORT_PER_SIGNATURE = 2
KNOWN_TRACE_SIG = "prepcache:HostUp:session-keyspace-statement-reprepared-without-keyspace"

LEVEL_TEXT = ("TLC explores every interleaving of prepare / execute-on-host / drop / node restart / node back up / node-side "
              "eviction for 3 statements on 2 hosts (protocol v4 and v5, prepare_on_all_hosts on and off) and checks the cache "
              "and re-preparation invariants; every (state, action) pair is replayed on a real simulated cluster and random "
              "3-host runs of the real cluster are validated against the specification by TLC.")


def _tla_consts(c):
    return {"Hosts": set(c["Hosts"]), "Stmts": set(c["Stmts"]), "V5": "TRUE" if c["V5"] else "FALSE",
            "AllHosts": "TRUE" if c["AllHosts"] else "FALSE", "SessionKs": '"k1"'}


def _configs():
    return [
        ("v4, prepare_on_all_hosts", {"Hosts": [0, 1], "Stmts": ["A", "B", "C"], "V5": False, "AllHosts": True}, WITNESSES),
        ("v5, prepare_on_all_hosts", {"Hosts": [0, 1], "Stmts": ["A", "B", "D"], "V5": True, "AllHosts": True},
         WITNESSES + ["Witness_SameTextTwoKeyspaces"]),
        ("v4, prepare on one host", {"Hosts": [0, 1], "Stmts": ["A", "B"], "V5": False, "AllHosts": False},
         ["Witness_UnpreparedExecute", "Witness_PrepareWhileDown"]),
    ]


class _Reporter:
    def __init__(self, ctx):
        self.ctx = ctx
        self.by_sig = {}
        self.label = "?"
        self.consts = None
        self.fatal = 0

    def __call__(self, st, d, sig, history):
        n = self.by_sig[sig] = self.by_sig.get(sig, 0) + 1
        if not set(d) <= {"srv", "prepares"}:
            self.fatal += 1
        if n <= MAX_REPORT_PER_SIGNATURE:
            self.ctx.violation("prepared-statement cache, %s: after %s the real cluster differs from PrepareCache.tla: %s"
                               % (self.label, dict(st["act"]), d),
                               replay={"prepcache": True, "consts": self.consts, "history": history[-40:],
                                       "expected": {"up": st["up"], "srv": {h: sorted(list(i) for i in v) for h, v in st["srv"].items()},
                                                    "held": st["held"], "act": st["act"],
                                                    "cache": sorted([list(k), v] for k, v in dict(st["cache"]).items())},
                                       "diff": {k: repr(v) for k, v in d.items()}},
                               signature=sig)


def _cover(nodes, edges, init, replayer, rng, stop):
    """Cover every (abstract state, action) pair by chains on real clusters."""
    from harness.replay import prepcache as pc
    by_src, hop = {}, {}
    seen = set()
    for s, d, _ in edges:
        st = nodes[d]
        ks, kd = pc.node_key(nodes[s]), pc.node_key(st)
        e = (ks, pc.act_key(st["act"]))
        if e in seen:
            continue
        seen.add(e)
        by_src.setdefault(ks, []).append(st)
        hop.setdefault(ks, {}).setdefault(kd, st)
    for lst in by_src.values():
        rng.shuffle(lst)
    total = len(seen)
    covered = 0
    pending = {k for k, v in by_src.items() if v}
    start = pc.node_key(nodes[init[0]])

    def path(src):
        par = {src: None}
        dq = deque([src])
        while dq:
            u = dq.popleft()
            if u in pending and u != src:
                p = []
                while par[u] is not None:
                    p.append(hop[par[u]][u])
                    u = par[u]
                return p[::-1]
            for v in hop.get(u, {}):
                if v not in par:
                    par[v] = u
                    dq.append(v)
        return None

    import gc
    gc.collect()
    gc.freeze()          # the parsed graph is immortal from here on: Drop's gc.collect() only has the cluster to look at
    guard = 0
    while pending and not stop() and guard < 200:
        guard += 1
        replayer.fresh()
        cur = start
        steps = 0
        while replayer.h is not None and not stop():
            lst = by_src.get(cur)
            if lst:
                st = lst.pop()
                covered += 1
                if not lst:
                    pending.discard(cur)
                replayer.apply(st)
                cur = pc.node_key(st)
                steps += 1
                continue
            p = path(cur) if pending else None
            if not p:
                break
            for st in p:
                if replayer.h is None:
                    break
                replayer.apply(st)
                cur = pc.node_key(st)
            if steps > 4000:
                break
    replayer.close()
    gc.unfreeze()
    return covered, total


def run_prepcache(ctx):
    from harness.replay import control as rc
    from harness.replay import prepcache as pc
    import time
    rep = _Reporter(ctx)
    timing = {}
    pairs_total = pairs_done = 0
    for label, consts, wit in _configs():
        rep.label, rep.consts = label, consts
        t0 = time.time()
        cfg = tlc.write_cfg(os.path.join(ctx.scratch, "prepcache.cfg"), constants=_tla_consts(consts), invariants=INVARIANTS,
                            constraints=["RecordWitnesses"], postcondition="PrintWitnesses", deadlock=False)
        res, nodes, edges, init = tlc.state_graph("PrepareCache", cfg, ctx.scratch, workers=1, timeout=900)
        ctx.add_tlc(res, "PrepareCache exhaustive, %s" % label)
        if res.violation:
            ctx.violation("TLC: %s violated in PrepareCache.tla (%s)" % (res.invariant, label),
                          replay={"trace": [s for _, s in res.trace()]}, signature="spec:PrepareCache:%s" % res.invariant)
            return
        rc.witnesses_in(res, wit, "PrepareCache")
        timing["tlc:" + label] = round(time.time() - t0, 1)
        t0 = time.time()
        rp = pc.PrepReplayer(consts, rep)
        cov, tot = _cover(nodes, edges, init, rp, ctx.rng, lambda: rep.fatal > 100)
        pairs_total += tot
        pairs_done += cov
        ctx.traces_validated += rp.conforming
        ctx.evaluations += rp.applied
        ctx.count("prepcache_chains", rp.chains)
        timing["replay:" + label] = round(time.time() - t0, 1)
        n = 0
        for st in nodes.values():
            a = st["act"]
            if a["name"] in ("HostUp", "Drop") or (a["name"] == "Execute" and a["unprepared"]):
                ctx.nontrivial(("prepcache", label, pc.node_key(st), pc.act_key(a)))
                n += 1
                if n % 400 == 1:
                    ctx.sample({"prepcache": label, "action": dict(a), "up": dict(st["up"]),
                                "server_prepared": {h: sorted(v) for h, v in st["srv"].items()}, "cache": dict(st["cache"])})
        if cov != tot and rep.fatal <= 100:
            raise tlc.MachineryError("prepcache: pair coverage incomplete (%d of %d) for %s" % (cov, tot, label))
    ctx.note("prepcache_pairs_state_x_action", pairs_total)
    ctx.note("prepcache_pairs_replayed", pairs_done)

    # ---- code -> spec: recorded random runs over 3 hosts, validated by TLC
    accepted_total = recorded_total = 0
    for label, consts in (("v4", {"Hosts": [0, 1, 2], "Stmts": ["A", "B", "C"], "V5": False, "AllHosts": True}),
                          ("v5", {"Hosts": [0, 1, 2], "Stmts": ["A", "B", "D"], "V5": True, "AllHosts": True})):
        t0 = time.time()
        traces = [pc.record(consts, ctx.rng, max_events=25) for _ in range(120)]
        good = len(traces)
        # binding self-test: a prefix without HostUp, the same with one corrupted field, the same with one event dropped
        victim = next((t[:6] for t in traces if len(t) >= 6 and t[3]["post"]["cache"] and t[0]["e"] == "Prepare"
                       and not any(e["e"] == "HostUp" for e in t[:6])), None)
        if victim is not None:
            bad1 = copy.deepcopy(victim)
            bad1[3]["post"]["cache"] = bad1[3]["post"]["cache"][1:]
            bad2 = copy.deepcopy(victim)
            del bad2[0]
            traces += [victim, bad1, bad2]
        tcfg = tlc.write_cfg(os.path.join(ctx.scratch, "prepcache_trace.cfg"), init="TraceInit", next="TraceNext",
                             constants=_tla_consts(consts), invariants=INVARIANTS, constraints=["Progress"],
                             postcondition="Done", deadlock=False)
        tres, prog = tlc.validate_traces("Trace_PrepareCache", tcfg, traces, ctx.scratch, timeout=900)
        ctx.add_tlc(tres, "PrepareCache trace validation, %s" % label)
        if tres.violation:
            ctx.violation("invariant %s violated in a state of a recorded execution (%s)" % (tres.invariant, label),
                          replay={"trace": [dict(s) for _, s in tres.trace()][-3:]},
                          signature="trace-inv:PrepareCache:%s" % tres.invariant)
            return
        accepted = 0
        rejected_sigs = {}
        for i in range(good):
            t = traces[i]
            if prog[i] == len(t) + 1:
                accepted += 1
                if any(e["e"] in ("HostUp", "Drop") for e in t):
                    ctx.nontrivial(("prepcache-trace", label, i))
                continue
            ev = t[prog[i] - 1]
            if ev["e"] == "HostUp" and any(p[1] == "ERROR" for p in ev.get("prepares", [])):
                sig = KNOWN_TRACE_SIG
            else:
                sig = "prepcache:trace:%s" % ev["e"]
            rejected_sigs[sig] = rejected_sigs.get(sig, 0) + 1
            rep.by_sig[sig] = rep.by_sig.get(sig, 0) + 1
            if rep.by_sig[sig] <= MAX_REPORT_PER_SIGNATURE:
                ctx.violation("prepared-statement cache, %s: recorded execution rejected by PrepareCache.tla at event %d: %s"
                              % (label, prog[i], ev),
                              replay={"prepcache": True, "consts": consts, "events": t[:prog[i]]}, signature=sig)
        if victim is not None:
            ok_victim = prog[good] == len(victim) + 1
            if ok_victim and (prog[good + 1] != 4 or prog[good + 2] > len(traces[good + 2])):
                raise tlc.MachineryError("prepcache binding self-test failed: corrupted/dropped trace accepted (%s, %s)"
                                         % (prog[good + 1], prog[good + 2]))
            if not ok_victim and not rep.by_sig:
                raise tlc.MachineryError("prepcache binding self-test: probe prefix rejected although nothing else diverges")
            ctx.note("prepcache_binding_selftest_" + label,
                     {"corrupted_rejected": 1, "dropped_rejected": 1} if ok_victim else {"skipped": "probe prefix itself rejected"})
        ctx.traces_validated += accepted
        accepted_total += accepted
        recorded_total += good
        ctx.evaluations += good
        ctx.sample({"prepcache_recorded_run": label, "events": [{k: v for k, v in e.items() if k != "post"} for e in traces[0][:10]]})
        timing["traces:" + label] = round(time.time() - t0, 1)
    ctx.note("prepcache_traces_recorded", recorded_total)
    ctx.note("prepcache_traces_accepted", accepted_total)
    ctx.note("prepcache_timing_s", timing)
    if rep.by_sig:
        ctx.note("prepcache_divergences_by_signature", rep.by_sig)

    # ---- binding self-test, replay direction: a corrupted expectation must be noticed
    h = pc.PrepHarness([0, 1], False, True)
    act = {"name": "Prepare", "s": "A"}
    obs = h.do(act)
    proj = h.project()
    h.shutdown()
    good_st = {"up": {0: True, 1: True}, "srv": {0: {("none", "qa")}, 1: {("none", "qa")}}, "held": {"A"},
               "cache": {("none", "qa"): "A"}, "act": dict(act, coord=0, id=("none", "qa"))}
    if not pc.diff(good_st, obs, proj):
        n = 0
        for k, v in (("srv", {0: {("none", "qa")}, 1: set()}), ("cache", {}), ("up", {0: True, 1: False})):
            bad = dict(good_st)
            bad[k] = v
            n += bool(pc.diff(bad, obs, proj))
        bad = dict(good_st, act=dict(good_st["act"], coord=1))
        n += bool(pc.diff(bad, obs, proj))
        if n != 4:
            raise tlc.MachineryError("prepcache binding self-test failed: %d of 4 corrupted expectations rejected" % n)
        ctx.note("prepcache_binding_selftest_replay", {"corrupted_rejected": n})
    elif not rep.by_sig:
        raise tlc.MachineryError("prepcache binding self-test: Prepare(A) on a fresh cluster does not conform: %s"
                                 % pc.diff(good_st, obs, proj))
    ctx.assumptions += [
        "prepcache: FakeNode derives the query id from (keyspace the statement is prepared under, query text) as Cassandra does; "
        "a text naming its keyspace is independent of the connection's keyspace; an unqualified text with no keyspace is refused",
        "prepcache: one session (keyspace k1), PREPAREs on other hosts never fail, a node restart is noticed at once",
        "prepcache: the unprepared-execute path is a black box (re-prepared on the coordinator, executes once)",
    ]


def _fix(obj):
    if isinstance(obj, dict):
        return {(int(k) if isinstance(k, str) and k.lstrip("-").isdigit() else k): _fix(v) for k, v in obj.items()}
    if isinstance(obj, list):
        return [_fix(x) for x in obj]
    return obj


def replay_prepcache(ctx, obj):
    """Re-execute a replay file written by run_prepcache (obj["prepcache"] is True)."""
    from harness.replay import prepcache as pc
    obj = _fix(obj)
    c = obj["consts"]
    h = pc.PrepHarness(c["Hosts"], c["V5"], c["AllHosts"])
    acts = obj.get("history") or [dict({"name": e["e"]}, **{k: e[k] for k in ("s", "h") if k in e}) for e in obj["events"]]
    obs = proj = None
    for a in acts:
        obs = h.do(a)
        proj = h.project()
        print("->", a, {k: v for k, v in obs.items() if v is not None})
        print("    up=%s server_prepared=%s cache=%s" % (proj["up"], {k: sorted(v) for k, v in proj["srv"].items()}, proj["cache"]))
    h.shutdown()
    if "expected" in obj:
        exp = obj["expected"]
        st = {"up": exp["up"], "srv": {k: [tuple(i) for i in v] for k, v in exp["srv"].items()}, "held": exp["held"],
              "cache": {}, "act": exp["act"]}
        cache = exp["cache"]
        st["cache"] = {tuple(k): v for k, v in cache}
        d = pc.diff(st, obs, proj)
        print("expected:", exp)
        if d:
            ctx.violation("replayed: still differs: %s" % d, replay=obj, signature=pc.signature(st, d))
    else:
        last = obj["events"][-1]
        if last["e"] == "HostUp" and any(p[1] == "ERROR" for p in obs.get("prepares", [])):
            ctx.violation("replayed: a cached statement was re-prepared without its keyspace and refused: %s" % obs,
                          replay=obj, signature=KNOWN_TRACE_SIG)
