"""C40 - GraphSON values survive serialization and deserialization (bounded scope, see level_note).

Spec: spec/GraphSON.tla - reference writer Ser(ver, x), reference reader Rd(ver, shape, tree) and the documented
      normalisation Norm(x) for GraphSON 1 / 2 / 3 over abstract JSON trees: which types are JSON numbers and which are
      strings in which version, the tags, Int32 / Int64 / BigInteger by range (on digit sequences of any width), the
      to-scientific-string of decimals, base64 with padding, uuid / inet (RFC 5952) text, ISO-8601 dates, times (3 / 6 / 9
      fraction digits), instants, durations (java.time.Duration: "PT-1.5S", "PT-0.5S", trailing zeros, zero components),
      well-known text of Point / LineString / Polygon / Distance, g:List / g:Set / g:Map (alternating array) against plain
      arrays / objects in GraphSON 1 / 2.
TLC : enumerates (version, type, boundary value) cases incl. containers nested to depth 2 over a small element alphabet;
      on the specification itself: Rd(Ser(x)) = Norm(x) for the canonical and every alternative form, tag / payload / form
      invariants; vacuity witnesses.
Bind: every case on the REAL code (harness/replay/graphson.py): real serializer -> json.loads compared with the
      specification's tree; real reader on the specification's tree and alternative forms; the real round trip.  Wire forms
      that differ from the specification's are read by TLC with the specification's reader (spec/Trace_GraphSON.tla:
      same value / another value / rejected).
Only a failed real round trip of a documented-supported type is a violation; every other deviation is an observation.
"""
from harness import tlc
from harness.replay import graphson as gs
from checks import _graphson as G

SCOPE = ("Enumerated: the boundary alphabets of GraphSON.tla per type (integers around 2^15, 2^31, 2^32, 2^63, 2^64 and a "
         "30-digit one, both signs; 12 named float atoms incl. NaN / +-Infinity / -0.0 / the largest binary32; decimals with "
         "both notations of the to-scientific-string, signed zero, 30-digit coefficients, exponents to +-999; blobs of every "
         "padding class; 13 inet addresses covering the RFC 5952 rules; dates / times / instants at the edges of the "
         "calendar range and of the 0 / 3 / 6-digit fraction classes, aware readings whose UTC reading stays on the same "
         "day; 45 durations of both signs with every combination of zero components and fractions from 1 microsecond up "
         "(days <= 20000); CQL durations to the int32 / int64 limits; points, linestrings, polygons (empty, with a hole), "
         "distances with short decimal coordinates), x 3 GraphSON versions, x the bytes-like input classes; lists, sets "
         "and maps over an 8 (quick) / 16 (thorough) element alphabet, lengths 0..2 (lists and sets to 3 in thorough), maps "
         "with text / int / uuid / date / decimal / boolean keys, nested to depth 2 (containers as list elements and map "
         "values), plus 13 hand-picked containers around one blob and one negative duration (blob as set element / map "
         "key / map value / list element). For GraphSON 1 / 2, maps with non-text keys are enumerated only as one-entry maps "
         "(they have no form there). NOT enumerated, hence not decided: arbitrary values between the boundaries; float bit patterns and the "
         "shortest-repr of floats (floats are opaque atoms: only tag and number-vs-string are specified); coordinates in "
         "exponent notation; nanosecond fractions (Python holds microseconds); durations beyond 20000 days; calendar "
         "arithmetic (time zones that change the date); tuples and UDTs (dse:Tuple / dse:UDT need a schema context and are "
         "not in the statement); graph elements (vertex, edge, path); null elements; nesting deeper than 2; strings beyond a "
         "9-string alphabet (JSON string escaping is json.dumps / json.loads, trusted).")

META = {
    "property_id": "C40",
    "engine": "GraphSON",
    "technique": "TLA+ reference writer / reader of the GraphSON 1 / 2 / 3 typed-JSON forms; TLC enumerates version x type x "
                 "boundary value x container shape and checks the round trip on the specification; every case is "
                 "serialized, read and round-tripped by the real serializers / readers, and TLC reads the real wire forms back",
    "level": "model_checking",
    "level_text": "TLC exhaustively enumerates the configured cases (18 scalar value classes with boundary alphabets, lists / "
                  "sets / maps nested to depth 2, GraphSON 1 / 2 / 3) and checks on the specification that the reference "
                  "reader applied to the reference writer's tree - and to every alternative form - gives the normalised "
                  "value, plus tag / payload-kind / text-shape invariants; every case is then run through the real "
                  "GraphSON1/2/3 serializers and readers: the real round trip must give an equal value for every type the "
                  "driver documents as supported in that version (the property), the real wire form is compared with the "
                  "specification's tree and, where it differs, read by TLC with the specification's reader, and the real "
                  "reader is run on the specification's forms (both recorded as observations, not violations). Exhaustive "
                  "over the enumerated cases only: this is a case-structure check (sign handling, sub-second fractions, "
                  "trailing zeros, exponent notation, padding, range classes, number-vs-string, container forms), not a "
                  "proof over value ranges.",
    "level_note": SCOPE + " Trusted: TLC; the transcription of the TinkerPop GraphSON documents, java.time / BigDecimal "
                  "toString / parse and the driver documentation into GraphSON.tla; Norm as the reading of 'an equal value' "
                  "(Python equality on the documented class; inet comes back as its text, an aware datetime as naive "
                  "UTC, bytes-likes as bytearray); the harness's mapping between abstract values and Python objects and "
                  "between JSON and trees (harness/replay/graphson.py); json.dumps / json.loads; GraphSON 1 is read with "
                  "GraphSON1Deserializer.deserialize_<type> element by element, as the documentation tells users to do.",
    "design_ref": "5.7 C40",
}


def run(ctx):
    drv = gs.Driver()
    wit = G.start_witnesses(ctx)
    try:
        cases = G.enumerate_cases(ctx)
    except BaseException:
        wit[0].shutdown(wait=True)
        raise
    if cases is None:
        wit[0].shutdown(wait=True)
        return
    col = G.Collector(drv)
    col.norms = {}
    import json
    for st in cases:
        if st["val"][0] not in gs.CONTAINERS and st["expect"] == "ok":
            col.norms[json.dumps(st["val"])] = st["norm"]
    per_family, per_version, feats = {}, {1: 0, 2: 0, 3: 0}, {}
    for i, st in enumerate(cases):
        n = col.run_case(st)
        ctx.evaluations += n
        ctx.traces_validated += 1
        val = st["val"]
        per_family[st["fam"]] = per_family.get(st["fam"], 0) + 1
        per_version[st["ver"]] += 1
        d = gs.depth(val)
        feats["depth-%d" % d] = feats.get("depth-%d" % d, 0) + 1
        if st["expect"] == "na":
            feats["no-form-in-this-version"] = feats.get("no-form-in-this-version", 0) + 1
        if val[0] == "dur" and val[1]:
            feats["negative-duration"] = feats.get("negative-duration", 0) + 1
        if val[0] == "dur" and val[4] % 1000000000 != 0:
            feats["sub-second-duration"] = feats.get("sub-second-duration", 0) + 1
        if val[0] == "int" and len(val[3]) >= 19:
            feats["integer-of-64-bits-or-more"] = feats.get("integer-of-64-bits-or-more", 0) + 1
        if st["alts"]:
            feats["alternative-forms"] = feats.get("alternative-forms", 0) + len(st["alts"])
        if d >= 1 and any(True for _ in gs.leaves(val)) or (d == 0 and val[0] not in ("bool", "text")):
            ctx.nontrivial(json.dumps([st["ver"], val]))
        if i % 1117 == 3:
            ctx.sample({"version": st["ver"], "value": gs.show_val(val), "spec_form": gs.show_tree(st["tree"])[:200] if st["expect"] == "ok" else None})
    # cassandra.util.Distance has no serializer in graphson.py (only the fluent API's DistanceIO, which needs gremlinpython:
    # typedValue('Distance', str(v)) / Distance.from_wkt): the closest thing to its round trip, recorded, not judged
    try:
        d = drv.util.Distance(1.0, 2.0, 3.0)
        back = drv.util.Distance.from_wkt(str(d))
        if not gs.equal(back, d):
            col.observe("fluent-only:Distance.from_wkt(str(d))-is-not-d", {"value": repr(d), "wkt": str(d), "read_back": repr(back)})
    except Exception as e:      # noqa
        col.observe("fluent-only:Distance.from_wkt(str(d))-raises", {"detail": str(e)[:200]})
    for need in ("depth-0", "depth-1", "depth-2", "negative-duration", "sub-second-duration", "integer-of-64-bits-or-more",
                 "no-form-in-this-version", "alternative-forms"):
        if not feats.get(need):
            raise tlc.MachineryError("vacuity: no case with feature %s" % need)
    for f in G.FAMILIES:
        if not per_family.get(f):
            raise tlc.MachineryError("vacuity: no case for family %s" % f)

    # binding self-test (judged as "the verdict changes", so that it also works on a broken driver)
    probe = next(s for s in cases if s["ver"] == 3 and s["val"] == ["int", "none", False, [2, 1, 4, 7, 4, 8, 3, 6, 4, 8]])
    ok0 = G.roundtrip(drv, 3, probe["val"], probe["norm"])[0]
    bad_norm = ["int", "none", False, [2, 1, 4, 7, 4, 8, 3, 6, 4, 9]]
    ok1 = G.roundtrip(drv, 3, probe["val"], bad_norm)[0]
    probe2 = next(s for s in cases if s["ver"] == 2 and s["val"][0] == "dec" and s["val"][3] == -2 and s["val"][2] == [1, 5, 0] and not s["val"][1])
    bad_tree = ["t", "gx:BigDecimal", ["s", ["1", ".", "5"]]]                       # "trailing zeros are dropped"
    r_good = _reader_verdict(drv, 2, probe2, probe2["tree"])
    r_bad = _reader_verdict(drv, 2, probe2, bad_tree)
    if ok0 == ok1 or r_good == r_bad:
        raise tlc.MachineryError("binding self-test failed: corrupted expectation not detected (%s %s / %s %s)" % (ok0, ok1, r_good, r_bad))
    # ... and through TLC: the specification's reader must tell a corrupted wire form from the real one
    wire3 = gs.to_tree({"@type": "g:Int64", "@value": 2147483648})
    extra = [{"ver": 3, "val": probe["val"], "wire": wire3},
             {"ver": 3, "val": probe["val"], "wire": gs.to_tree({"@type": "g:Int64", "@value": 2147483649})},
             {"ver": 3, "val": probe["val"], "wire": gs.to_tree({"@type": "g:Int32", "@value": 2147483648})}]
    verdicts = col.judge_wire(ctx, extra)
    got = [v[0] for v in verdicts]
    if got != ["same", "different", "rejected"]:
        raise tlc.MachineryError("binding self-test failed: Trace_GraphSON verdicts on the probes are %s" % (verdicts,))
    ctx.note("binding_selftest", {"corrupted_rejected": 4})

    G.finish_witnesses(ctx, wit)

    ctx.note("exhaustive", True)
    ctx.note("constants", {"Rich": not ctx.quick, "Versions": [1, 2, 3], "Families": G.FAMILIES})
    ctx.note("cases_per_family", per_family)
    ctx.note("cases_per_version", per_version)
    ctx.note("structural_features", feats)
    ctx.note("counts", col.counts)
    ctx.note("rule", "one case = one TLC state (GraphSON version, abstract value); evaluations = real serializer + reader "
                     "runs (round trip per input class, real reader per specification form); distinct by (version, value); "
                     "non-trivial = a scalar other than text / boolean, or a container with at least one element")
    ctx.note("observations", {k: col.obs[k] for k in sorted(col.obs)})
    ctx.note("observation_classes", len(col.obs))

    for sig in sorted(col.groups):
        members = col.groups[sig]
        st, form, symptom, detail = min(members, key=lambda m: (gs.depth(m[0]["val"]), len(json.dumps(m[0]["val"])), m[0]["ver"]))
        vers = sorted({m[0]["ver"] for m in members})
        ctx.violation("round trip fails (%s) for a documented-supported type: %d cases, GraphSON versions %s; smallest: "
                      "GraphSON %d %s: %s" % (symptom, len(members), vers, st["ver"], gs.show_val(st["val"]), detail),
                      replay={"ver": st["ver"], "val": st["val"], "norm": st["norm"], "cases": len(members), "versions": vers},
                      signature=sig)
    ctx.assumptions += [SCOPE,
                        "violation = failed real round trip of a type documented as supported in that version; wire-form and "
                        "reader deviations are observations",
                        "equality = Python == on the documented class (NaN equal to NaN); a changed class / exponent / sign "
                        "of zero with == still true is an observation"]


def _reader_verdict(drv, ver, st, tree):
    try:
        back = drv.read(ver, gs.tree_json(tree), gs.shape_of(st["val"]))
        return "ok" if gs.strictly_equal(back, gs.expected_python(drv, st["norm"])) else "differs"
    except Exception as e:      # noqa
        return "raises:" + type(e).__name__


def replay(ctx, obj):
    drv = gs.Driver()
    bad = G.replay_case(ctx, drv, obj)
    if bad:
        ctx.violation("replayed: round trip still fails: %s" % bad, replay=obj)
    else:
        print("  round trip holds")
