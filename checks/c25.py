"""C25 - host state changes keep a single reconnector and notify listeners once (spec/Hosts.tla)."""
from checks import _hosts, _driver

META = {
    "property_id": "C25",
    "engine": "Hosts",
    "technique": "TLA+ spec of Cluster/Session host-state handling (executor tasks, scheduler entries, events as actions) "
                 "checked exhaustively by TLC; edges of the state graph replayed into a real Cluster with Sessions over "
                 "simulated nodes, executor and scheduler; recorded random runs validated against the spec",
    "level": "model_checking",
    "level_text": "TLC visits every interleaving of connection failures, status and topology events, node accept/refuse/"
                  "auth changes, executor tasks (on_down, add_or_renew_pool, pool shutdown, reconnector runs, on_up, "
                  "remove_host, node-list refresh) and scheduler hand-overs for up to 2 subject hosts, 2 sessions and 3 "
                  "environment events, and checks at quiescence: a down, known, non-ignored host without authentication "
                  "failure has exactly one live reconnector; a removed host none, ever; listener on_up/on_add and policy on_up "
                  "at most once per transition and at least one listener notification when a host came back; an up host has an "
                  "open pool in every session.  The same graph is replayed edge by edge on the real driver objects with the "
                  "projected state (hosts, handlers, pools, queues by task, notifications of the step, open connections) "
                  "compared after each step; seeded random runs with all event kinds are recorded and validated by TLC "
                  "(Trace_Hosts) with the invariants on.  Behaviours of the code that break the property are named "
                  "deviations of the spec, detected by fixed probe schedules on the real objects and reported.",
    "level_note": "Trusted: TLC; SimConnection/FakeNode/SimExecutor/SimScheduler doubles; executor tasks are atomic "
                  "(two worker threads inside one task are not interleaved); the control host never fails, removed hosts are "
                  "not re-added; small scope.",
    "design_ref": "5.4 C25",
}
META["level_text"] += _driver.SYSTEM_LEVEL_TEXT


def run(ctx):
    _hosts.run(ctx, "C25")
    _driver.system_tier(ctx, "C25")     # thorough: whole-driver runs against spec/Driver.tla, rejections owned by C25


def replay(ctx, obj):
    if _driver.is_system_replay(obj):
        return _driver.replay_system(ctx, obj)
    _hosts.replay(ctx, "C25", obj)
