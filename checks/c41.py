"""C41 - protocol version negotiation only steps down and terminates.

Spec: spec/ControlNegotiate.tla - one configuration per initial state (start version x explicit/implicit x
      allow_beta x server version set S x server-side beta set B); a connection attempt is two steps by two threads:
      Reply (event loop publishes the outcome and sets connected_event) and Observe (the thread waiting in
      Connection.factory() reads it - at any instant after the event is set - and _try_connect's handler runs).
TLC : exhaustive over all configurations; invariants StrictlyDecreasing, NextLowerOnly, NoBetaUnlessConfigured,
      ExplicitOnce, RetryOnlyOnReject, ConnectedInS, ErrorOnlyWhenExhausted, Bounded; liveness Terminates.
Bind: every terminal state (= one configuration with the complete log and the outcome) is executed on the real
      driver: Cluster.connect() (and ControlConnection._try_connect directly) against a FakeNode that rejects
      versions outside S with the protocol error and versions in B without USE_BETA with the beta error; the log
      of first-frame versions, the outcome and the resulting Cluster.protocol_version must equal the spec's.
      Each configuration with a rejection runs under two schedules of the Observe step: after the event-loop
      callback returned, and at the very instant connected_event is set (the waiting thread reads last_error /
      is_unsupported_proto_version as they are then).
"""
import os

from harness import tlc

META = {
    "property_id": "C41",
    "engine": "ControlNegotiate",
    "technique": "TLA+ spec of the downgrade loop checked exhaustively by TLC (safety + termination); every terminal "
                 "spec state (one per configuration) replayed on the real Cluster.connect / _try_connect",
    "level": "model_checking",
    "level_text": "TLC enumerates every configuration the property quantifies over - 8 start versions x explicit/implicit "
                  "x allow_beta x all 256 server version sets (empty included) x server-side beta markings - runs the "
                  "negotiation loop of the specification on each and checks 'strictly decreasing', 'next lower non-beta "
                  "only', 'explicit is never downgraded', 'connected only at a version the server accepts', 'gives up "
                  "only when exhausted' and termination. Each configuration is then run on the real driver against a "
                  "scripted node and must produce exactly the specification's log of tried versions and outcome. "
                  "Exhaustive over the finite space.",
    "level_note": "Trusted: TLC; the transcription of SUPPORTED_VERSIONS/BETA_VERSIONS into the spec constants; FakeNode "
                  "(independent codec) rejecting on the first frame of a connection as Cassandra does; server-side beta "
                  "sets bounded (quick: only the newest server version may be beta; thorough: any one version).",
    "design_ref": "5.4 C41",
}

INVARIANTS = ["TypeOK", "StrictlyDecreasing", "NextLowerOnly", "NoBetaUnlessConfigured", "ExplicitOnce",
              "RetryOnlyOnReject", "ConnectedInS", "ErrorOnlyWhenExhausted", "Bounded"]
WITNESSES = ["Witness_SkipBeta", "Witness_BetaReply", "Witness_Exhausted", "Witness_ExplicitFail", "Witness_ExplicitBeta"]


def _cfg_of(st):
    return {"start": st["start"], "explicit": bool(st["explicit"]), "allow_beta": bool(st["allowBeta"]),
            "S": sorted(st["S"]), "B": sorted(st["B"])}


def _run_one(st, hdr, via, early=False):
    from harness.replay import control as rc
    c = _cfg_of(st)
    got = rc.negotiate(c["start"], c["explicit"], c["allow_beta"], c["S"], c["B"], hdr=hdr, via=via, early=early)
    return got, rc.negotiate_diff(st, got)


def run(ctx):
    from harness.replay import control as rc
    consts = {"MaxServerBeta": 1, "BetaTopOnly": "TRUE" if ctx.quick else "FALSE", "ServerSets": "<-AllServerSets"}
    cfg = tlc.write_cfg(os.path.join(ctx.scratch, "neg.cfg"), spec="Spec", constants=consts, invariants=INVARIANTS,
                        properties=["Terminates"], deadlock=False)
    import time
    t0 = time.time()
    res, states = rc.dump_states("ControlNegotiate", cfg, ctx.scratch,
                                 keep=lambda body: 'status = "trying"' not in body, timeout=600 if ctx.quick else 3000)
    ctx.add_tlc(res, "exhaustive (safety + termination)")
    ctx.note("t_tlc_and_parse_s", round(time.time() - t0, 1))
    ctx.note("constants", {k: v for k, v in consts.items() if k != "ServerSets"})
    ctx.note("exhaustive", True)
    if res.violation:
        ctx.violation("TLC: %s violated in ControlNegotiate.tla (the specified negotiation itself breaks the property)"
                      % res.invariant, replay={"trace": [s for _, s in res.trace()]}, signature="spec:%s" % res.invariant)
        return
    # vacuity witnesses on a small family of servers (each must be VIOLATED = reachable)
    small = {"MaxServerBeta": 1, "BetaTopOnly": "FALSE", "ServerSets": "<-WitnessServerSets"}
    wres = rc.witnesses_reached("ControlNegotiate", ctx.scratch, WITNESSES, spec="Spec", constants=small)
    cov = wres.coverage()
    if cov.get("Reply", (0, 0))[1] == 0 or cov.get("Observe", (0, 0))[1] == 0:
        raise tlc.MachineryError("actions Reply / Observe never taken: %s" % cov)
    ctx.note("vacuity_witnesses_reached", len(WITNESSES))

    ctx.note("t_witness_s", round(time.time() - t0, 1))
    if not states:
        raise tlc.MachineryError("no terminal states in the dump")
    # (hdr, via) variants: how the node stamps the version of its error frame, and which entry point runs
    # and when the client thread waiting in Connection.factory() observes the connection (step Observe): after the
    # event-loop callback has returned ("late") or at the very instant connected_event is set ("early")
    variants = [("max", "try_connect", False), ("max", "try_connect", True)] if ctx.quick else \
        [("max", "connect", False), ("max", "connect", True), ("min", "try_connect", True), ("echo", "try_connect", False)]
    ctx.note("variants", ["reply-header=%s via=%s observe=%s" % (h, v, "early" if e else "late") for h, v, e in variants])
    ctx.note("configurations", len(states))
    seen_sig = {}
    for i, st in enumerate(states):
        for hdr, via, early in variants:
            if early and ctx.quick and st["replies"][0] == "ok":
                continue                      # nothing was rejected: no error for the waiting thread to classify
            got, d = _run_one(st, hdr, via, early)
            ctx.evaluations += 1
            if not d:
                if list(got["replies"]) != list(st["replies"]):
                    raise tlc.MachineryError("scripted node answered %s, the specification's server %s (config %s)"
                                             % (got["replies"], list(st["replies"]), _cfg_of(st)))
                ctx.traces_validated += 1
                continue
            sig = rc.negotiate_signature(st, d)
            seen_sig[sig] = seen_sig.get(sig, 0) + 1
            if seen_sig[sig] <= 3:
                ctx.violation("configuration %s (reply header %s, via %s, Connection.factory observing %s): %s"
                              % (_cfg_of(st), hdr, via, "at the instant connected_event is set" if early else
                                 "after the event-loop callback returned", d),
                              replay={"state": st, "hdr": hdr, "via": via, "early": early, "diff": d}, signature=sig)
        if len(st["log"]) >= 2 or st["status"] == "error":
            ctx.nontrivial((st["start"], st["explicit"], st["allowBeta"], tuple(sorted(st["S"])), tuple(sorted(st["B"]))))
        if i % 3001 == 7:
            ctx.sample({"config": _cfg_of(st), "log": list(st["log"]), "replies": list(st["replies"]),
                        "outcome": st["status"], "version": st["ver"]})
    if seen_sig:
        ctx.note("divergences_by_signature", seen_sig)
    ctx.note("rule", "one case = one configuration (start, explicit, allow_beta, S, B); non-trivial = at least one "
                     "rejection happened (log length >= 2 or outcome error)")

    # binding self-test: flipped expectations must be noticed
    probe = None
    for cand in [s for s in states if s["status"] == "connected" and len(s["log"]) >= 3][:25]:
        if not _run_one(cand, "max", "connect")[1]:
            probe = cand
            break
    if probe is None:
        if not seen_sig:
            raise tlc.MachineryError("binding self-test: no conforming probe configuration")
        ctx.note("binding_selftest", {"skipped": "the code under test diverges on every probe"})
    else:
        bad1 = dict(probe)
        bad1["log"] = tuple(probe["log"][:-1])
        bad2 = dict(probe)
        bad2["status"] = "error"
        bad3 = dict(probe)
        bad3["ver"] = probe["ver"] + 1
        n = 0
        for bad in (bad1, bad2, bad3):
            _, d = _run_one(bad, "max", "connect")
            if not d:
                raise tlc.MachineryError("binding self-test failed: corrupted expectation accepted")
            n += 1
        ctx.note("binding_selftest", {"corrupted_rejected": n})
    ctx.assumptions += [
        "the server rejects a version on the first frame of a connection (OPTIONS), with the two error messages Cassandra uses",
        "implicit configurations start from any non-beta supported version (Cluster.protocol_version as left by an earlier "
        "negotiation), not only from the class default DSE_V2",
        "server-side beta sets: at most one version",
    ]


def replay(ctx, obj):
    st, hdr, via = obj["state"], obj.get("hdr", "max"), obj.get("via", "connect")
    got, d = _run_one(st, hdr, via, obj.get("early", False))
    print("config  :", _cfg_of(st))
    print("spec    : log=%s outcome=%s version=%s" % (list(st["log"]), st["status"], st["ver"]))
    print("code    : log=%s outcome=%s version=%s error=%s" % (got["log"], got["status"], got["ver"], got["error"]))
    if d:
        from harness.replay import control as rc
        ctx.violation("replayed: still differs: %s" % d, replay=obj, signature=rc.negotiate_signature(st, d))
