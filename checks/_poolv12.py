"""Second model of C12: spec/PoolV12.tla bound to the real protocol-v1/v2 HostConnectionPool (called from checks/c12.py)."""
import copy
import os
from concurrent.futures import ThreadPoolExecutor

from harness import tlc
from checks._pool import cover_walks, _jc

INV = ["Capacity", "NonNegative", "Accounting", "ListOK", "AllClosed", "TrashBusy"]
PROPS = ["ShutdownRefuses"]
ACTIONS = ["BorrowStart", "BorrowTake", "Send", "Respond", "ConnFails", "ClockAdvance", "TaskCheck", "TaskOpen", "TaskPublish",
           "ShutdownMark", "ShutdownClose"]
WITNESSES = ["Witness_TwoListed", "Witness_Trashed", "Witness_ClosedByReturn", "Witness_ReplaceWhileConnecting",
             "Witness_TwoConnecting", "Witness_PublishAfterShutdown", "Witness_EmptyListBorrow", "Witness_CapacityRefusal"]

# capacity per connection, core/max connections, spawn / trash thresholds, requests, connections ever, executor tasks, failed opens, socket errors
V_SMALL = {"MaxId": 2, "Core": 1, "MaxConns": 2, "MaxReqs": 1, "MinReqs": 1, "Reqs": {1, 2}, "NConns": 2, "NTasks": 2,
           "MaxFails": 0, "MaxConnFails": 1}
V_MID = {"MaxId": 2, "Core": 1, "MaxConns": 2, "MaxReqs": 1, "MinReqs": 1, "Reqs": {1, 2}, "NConns": 3, "NTasks": 3,
         "MaxFails": 1, "MaxConnFails": 1}
V_BIG = {"MaxId": 2, "Core": 1, "MaxConns": 2, "MaxReqs": 1, "MinReqs": 1, "Reqs": {1, 2, 3}, "NConns": 3, "NTasks": 3,
         "MaxFails": 1, "MaxConnFails": 1}

WHAT = {
    "HostConnectionPool._add_conn_if_under_max:publishes-new-connection-after-shutdown":
        "HostConnectionPool._add_conn_if_under_max checks is_shutdown only before connecting (pool.py 715); a connection opened "
        "while shutdown() runs is appended to _connections afterwards (729-731) and never closed",
}


def name(k):
    return "v1/v2 pool: MaxId=%d Core=%d Max=%d MaxReqs=%d MinReqs=%d Reqs=%d NConns=%d NTasks=%d MaxFails=%d MaxConnFails=%d" % (
        k["MaxId"], k["Core"], k["MaxConns"], k["MaxReqs"], k["MinReqs"], len(k["Reqs"]), k["NConns"], k["NTasks"],
        k["MaxFails"], k["MaxConnFails"])


class Reporter:
    def __init__(self, ctx):
        self.ctx = ctx
        self.counts = {}

    def report(self, signature, what, replay):
        first = signature not in self.counts
        self.counts[signature] = self.counts.get(signature, 0) + 1
        if first:
            self.ctx.violation(what, replay=replay, signature=signature)

    def finish(self):
        self.ctx.note("v12_violations_by_signature", dict(self.counts))


def _acts(states):
    return [dict(s["act"]) for s in states[1:]]


def _fmt(d):
    out = dict(d)
    for k in ("diff", "after_repair"):
        if k in out:
            out[k] = {f: {"spec": repr(v["spec"]), "code": repr(v["code"])} for f, v in out[k].items()}
    return out


def _lost_update_window(nodes, w):
    """Does the walk change the connection list while another task holds a connection it has yet to publish?"""
    for a, b in zip(w, w[1:]):
        sa, sb = nodes[a]["pool"], nodes[b]["pool"]
        if sa["conns"] != sb["conns"]:
            ta, tb = sa["tasks"], sb["tasks"]
            ta = ta if isinstance(ta, tuple) else tuple(ta[i] for i in sorted(ta))
            tb = tb if isinstance(tb, tuple) else tuple(tb[i] for i in sorted(tb))
            if any(x["ph"] == "publish" and y["ph"] == "publish" for x, y in zip(ta, tb)):
                return True
    return False


def _report_walk(rep, consts, acts, div, met):
    for m in met:
        rep.report(m["signature"], "%s. Replay: after %s the specification (what C12 requires) and the code differ: %s"
                   % (WHAT[m["signature"]], m["action"]["name"], _fmt(m)["diff"]),
                   {"kind": "walk-v12", "constants": _jc(consts), "actions": acts[:m["step"] - 1],
                    "repairs": {str(x["step"]): {"signature": x["signature"], "info": x["repair"]} for x in met if x["step"] < m["step"]},
                    "divergence": _fmt(m)})
    if div:
        rep.report(div["signature"], "replay (v1/v2 pool) diverges at step %d (%s): %s" % (div["step"], div["action"], _fmt(div)["diff"]),
                   {"kind": "walk-v12", "constants": _jc(consts), "actions": acts[:div["step"] - 1],
                    "repairs": {str(x["step"]): {"signature": x["signature"], "info": x["repair"]} for x in met},
                    "divergence": _fmt(div)})


def replay_graph(ctx, consts, rep, max_walks=None, check=True, label="v12_graph"):
    from harness.replay import poolv12 as rv
    cfg = tlc.write_cfg(os.path.join(ctx.scratch, "v12_graph.cfg"), constants=consts, invariants=INV if check else (),
                        properties=PROPS if check else (), deadlock=False)
    res, nodes, edges, init = tlc.state_graph("PoolV12", cfg, ctx.scratch, coverage=check, timeout=1800)
    ctx.add_tlc(res, "state graph %s" % name(consts))
    if res.violation:
        rep.report("spec:v12:%s" % res.invariant, "TLC: %s violated on PoolV12.tla (%s)" % (res.invariant, name(consts)),
                   {"kind": "spec", "trace": [dict(s.get("act", {})) for _, s in res.trace()]})
        return 0
    if check:
        cov = res.coverage()
        zero = [a for a in ACTIONS if a not in cov or cov[a][1] == 0]
        if zero:
            raise tlc.MachineryError("actions never taken in PoolV12 (%s): %s" % (name(consts), zero))
    walks = cover_walks(edges, init, max_len=60)
    total = len(walks)
    if max_walks is not None and total > max_walks:
        ctx.rng.shuffle(walks)
        racy = [w for w in walks if _lost_update_window(nodes, w)]
        rest = [w for w in walks if not _lost_update_window(nodes, w)]
        walks = (racy[:max_walks // 2] + rest)[:max_walks]         # windows for lost list updates first, then a random sample
    all_edges = set((s, d) for s, d, _ in edges)
    covered = set()
    clean = 0
    met_counts = {}
    selftest = None
    choice_stops = 0
    for n, w in enumerate(walks):
        states = [nodes[i] for i in w]
        div, met = rv.replay(consts, states)
        if div and div.get("choice"):          # the code picked another of the least busy connections: this behaviour ends here
            choice_stops += 1
            covered.update(zip(w[:div["step"]], w[1:div["step"]]))
            _report_walk(rep, consts, _acts(states), None, met)
            continue
        upto = div["step"] if div else len(w) - 1
        covered.update(zip(w[:upto + 1], w[1:upto + 1]))
        acts = _acts(states)
        ctx.nontrivial(("v12",) + tuple((a["name"], a["r"], a["c"], a["f"]) for a in acts[:upto]))
        if n % 500 == 0:
            ctx.sample({"direction": "spec->code", "constants": name(consts), "actions": acts[:25]})
        for m in met:
            met_counts[m["signature"]] = met_counts.get(m["signature"], 0) + 1
        _report_walk(rep, consts, acts, div, met)
        if not div and not met:
            clean += 1
            if selftest is None and len(w) >= 5:
                bad = list(states)
                flipped = dict(bad[3])
                p = dict(flipped["pool"])
                p["sched"] = p["sched"] + 1
                flipped["pool"] = p
                bad[3] = flipped
                d2, _ = rv.replay(consts, bad)
                selftest = bool(d2) and d2["step"] == 3 and "sched" in d2["diff"]
                if not selftest:
                    raise tlc.MachineryError("binding self-test failed (v1/v2 pool): a flipped expectation was not noticed")
    ctx.traces_validated += clean
    ctx.count("v12_behaviours_replayed", len(walks))
    ctx.count("v12_behaviours_replayed_without_divergence", clean)
    ctx.note(label, {"constants": name(consts), "edges": len(all_edges), "edges_replayed": len(covered),
                           "cover_walks_needed": total, "cover_walks_replayed": len(walks),
                           "exhaustive": len(covered) == len(all_edges), "flipped_expectation_noticed": bool(selftest),
                 "walks_ended_where_the_code_picked_another_least_busy_connection": choice_stops})
    if met_counts:
        ctx.note(label + "_known_leak_steps_met_and_repaired", met_counts)
    return len(walks)


def witnesses(ctx, consts):
    def one(w):
        k = V_BIG if w == "Witness_CapacityRefusal" else consts         # needs a third request
        cfg = tlc.write_cfg(os.path.join(ctx.scratch, "v12_" + w + ".cfg"), constants=k, invariants=[w], deadlock=False)
        return w, tlc.check_model("PoolV12", cfg, ctx.scratch, workers=2, timeout=600, heap="1g")
    with ThreadPoolExecutor(max_workers=8) as ex:
        for w, res in ex.map(one, WITNESSES):
            if res.invariant != w:
                raise tlc.MachineryError("vacuity witness %s (PoolV12) not reachable with %s" % (w, name(consts)))
    ctx.note("v12_vacuity_witnesses_reached", len(WITNESSES))


def validate_recorded(ctx, consts, n_traces, rep, max_events=60):
    from harness.replay import poolv12 as rv
    traces = [rv.record(consts, ctx.rng, max_events=max_events) for _ in range(n_traces)]
    good = len(traces)
    victims = [i for i, t in enumerate(traces) if len(t) >= 6][:6]
    if not victims:
        raise tlc.MachineryError("no recorded v1/v2-pool trace long enough for the binding self-test")
    for i in victims:
        bad1 = copy.deepcopy(traces[i])
        bad1[3]["post"]["inflight"][0] += 1
        bad2 = copy.deepcopy(traces[i])
        del bad2[2]
        traces += [bad1, bad2]
    cfg = tlc.write_cfg(os.path.join(ctx.scratch, "v12_trace.cfg"), init="TraceInit", next="TraceNext", constants=consts,
                        invariants=INV, constraints=["Progress"], postcondition="Done", deadlock=False)
    res, prog = tlc.validate_traces("Trace_PoolV12", cfg, traces, ctx.scratch, timeout=2400)
    ctx.add_tlc(res, "trace validation %s" % name(consts))
    if res.violation:
        rep.report("trace-inv:v12:%s" % res.invariant, "invariant %s violated in a state of a recorded v1/v2-pool execution" % res.invariant,
                   {"kind": "trace-inv", "trace": [dict(s) for _, s in res.trace()][-3:]})
        return
    tested = 0
    for j, i in enumerate(victims):
        if prog[i] >= 5:
            if prog[good + 2 * j] != 4 or prog[good + 2 * j + 1] > 3:
                raise tlc.MachineryError("binding self-test failed (v1/v2 pool): corrupted/dropped trace accepted (%s, %s)"
                                         % (prog[good + 2 * j], prog[good + 2 * j + 1]))
            tested += 1
    if not tested:
        raise tlc.MachineryError("binding self-test could not run (v1/v2 pool): no victim trace accepted for 5 events")
    ctx.note("v12_binding_selftest", {"corrupted_rejected": tested, "dropped_rejected": tested})
    accepted = 0
    for i in range(good):
        t = traces[i]
        if prog[i] == len(t) + 1:
            accepted += 1
            if any(e["e"].startswith("Task") or e["e"].startswith("Shutdown") or e["e"] == "ConnFails" for e in t):
                ctx.nontrivial(("v12-trace", i, len(t)))
            continue
        k = prog[i] - 1
        ev = t[k]
        before = t[k - 1]["post"] if k >= 1 else None
        sig = rv.classify_event(ev, before)
        rep.report(sig, (WHAT[sig] + ". " if sig in WHAT else "") +
                   "recorded v1/v2-pool execution rejected by the specification at event %d: %s"
                   % (prog[i], {a: b for a, b in ev.items() if a != "post"}),
                   {"kind": "trace", "constants": _jc(consts), "events": t[:prog[i]]})
    ctx.traces_validated += accepted
    ctx.count("v12_traces_recorded", good)
    ctx.count("v12_traces_accepted", accepted)


def run(ctx):
    rep = Reporter(ctx)
    if ctx.quick:
        n = replay_graph(ctx, V_SMALL, rep, max_walks=500)
        witnesses(ctx, V_MID)
        validate_recorded(ctx, V_MID, 80, rep)
    else:
        cfg = tlc.write_cfg(os.path.join(ctx.scratch, "v12_big.cfg"), constants=V_BIG, invariants=INV, properties=PROPS, deadlock=False)
        res = tlc.check_model("PoolV12", cfg, ctx.scratch, timeout=2400)
        ctx.add_tlc(res, "exhaustive %s" % name(V_BIG))
        if res.violation:
            rep.report("spec:v12:%s" % res.invariant, "TLC: %s violated on PoolV12.tla (%s)" % (res.invariant, name(V_BIG)),
                       {"kind": "spec", "trace": [dict(s.get("act", {})) for _, s in res.trace()]})
            return rep.finish()
        witnesses(ctx, V_MID)
        n = replay_graph(ctx, V_SMALL, rep)                                            # every edge
        n += replay_graph(ctx, V_MID, rep, max_walks=8000, check=False, label="v12_graph_sampled")
        validate_recorded(ctx, V_MID, 800, rep)
        validate_recorded(ctx, V_BIG, 800, rep, max_events=80)
    rep.finish()
    ctx.evaluations += n + ctx.extra.get("v12_traces_recorded", 0)
    ctx.assumptions += [
        "v1/v2 pool (PoolV12.tla): same grain and doubles as the v3+ model; client timeouts / orphaned streams, REMOTE distance, "
        "core > 1 and ensure_core_connections are not modelled; <=3 requests, <=3 connections, <=3 executor tasks; open_count is "
        "compared only while the pool is alive; TaskPublish is specified as C12 needs it (INTENDED) after a shutdown",
    ]


def replay(ctx, obj):
    from harness.replay import poolv12 as rv
    consts = dict(obj["constants"])
    consts["Reqs"] = set(consts["Reqs"])
    h = rv.V12Harness(consts)
    acts = obj["actions"] + ([obj["divergence"]["action"]] if obj.get("divergence") else [])
    for i, a in enumerate(acts, 1):
        print("-> %d %s r=%s c=%s f=%s" % (i, a["name"], a["r"], a["c"], a["f"]))
        try:
            h.do(a)
        except Exception as ex:
            print("   cannot perform: %s: %s" % (type(ex).__name__, ex))
            break
        p = h.project()
        print("   ", {k: p[k] for k in ("conns", "trash", "openCount", "sched", "queued", "inflight", "closed", "shutdown", "st", "on")})
        r = obj.get("repairs", {}).get(str(i))
        if r:
            print("   (known leak %s: repaired to go on)" % r["signature"])
            h.repair(r["signature"], r["info"])
    if obj.get("divergence"):
        print("specification vs code after the last step:", obj["divergence"]["diff"])
    print("pool connections still open:", h.open_pool_connections())
    h.teardown()
