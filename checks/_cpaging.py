"""Shared driver for XCPAGE (spec/ContinuousPaging.tla bound to the real ContinuousPagingSession, Connection,
ResponseFuture and ResultSet through harness/replay/cpaging.py)."""
import copy
import os

from harness import tlc

LEVEL_TEXT = (
    "TLC visits every interleaving of: the node sending numbered pages within its window / failing the stream / reading "
    "REVISE_REQUESTs, the loop thread delivering frames (process_msg -> on_page / on_error / revise handlers), the "
    "application thread stepping the results() generator (every acquisition of the session's condition is a step: wait, "
    "wake by notify or timeout, pop + maybe_request_more, rows, end, raise), cancel() in its two critical sections, socket "
    "error and close(), for 2-4 pages and max_queue_size 0 (DSE_V1) / 2-4.  Invariants: rows in page order without gap or "
    "repetition, queue order, stream id given back at most once and exactly when the last page / stream error is processed, "
    "no session left registered once consumer and node are done, back-pressure window arithmetic (requested - received and "
    "queue length within max_queue_size, node never beyond what was requested), no stall (a waiting consumer always has a page "
    "coming or the node may send), exactly one cancel message, an error raised only after exactly the pages queued before it, "
    "the generator ends only after the complete result or a cancel, terminal once; liveness under fairness (no state "
    "constraint): the consumer always terminates (without relying on the 5 s wait timeout), a cancel always stops it.  "
    "Every edge of the state graphs is replayed into the real objects (DetSched logical threads for consumer and canceller, "
    "loop callbacks atomic) with the projected state compared after each step; seeded random runs of the real objects are "
    "validated by TLC against Trace_ContinuousPaging with the invariants on.")

BASE = {"MaxPages": 2, "MQS": 2, "NRows": 1, "EmptyPages": set(), "NodeErrors": True, "Faults": {"SocketError", "Close"},
        "Cancels": True, "CancelTerminal": True, "RefuseLate": False, "Busy": False, "Timeouts": True,
        "CloseFailsSessions": False, "LateBP": False}

BASE_INV = ["TypeOK", "InOrder", "QueueInOrder", "IdOnce", "ReleasedOnLast", "Window", "NoStall", "CancelOnce",
            "RaisedAfterQueued", "EndedComplete"]
ORPHAN_INV = ["NoOrphanSession"]          # needs a writable socket and a node that ends a cancelled stream with a frame
INTENDED_INV = ["CompleteMeansEnd"]       # needs ~LateBP
BASE_PROPS = ["EndsOnce"]
INTENDED_PROPS = ["NoRequestAfterStop"]
LIVE_PROPS = ["Termination", "CancelStops"]

ACTIONS = ["NodeSendPage", "NodeSendError", "NodeRecv", "Deliver", "Die", "SetWritable", "Row", "Call", "Enter", "Wake",
           "CancelSend", "CancelStop"]

SIG_LATE = "Deviation_LateBackpressure:request-more-after-session-stopped"
SIG_BUSY = "Busy:ConnectionBusy-escapes-results-generator:session-orphaned"


def invariants_for(c):
    inv = list(BASE_INV)
    if not c["Busy"] and c["CancelTerminal"]:
        inv += ORPHAN_INV
    if not c["LateBP"]:
        inv += INTENDED_INV
    return inv


def properties_for(c):
    return BASE_PROPS + ([] if c["LateBP"] else INTENDED_PROPS)


def expected_actions(c):
    skip = set()
    if not c["Busy"]:
        skip.add("SetWritable")
    if c["NRows"] < 2:
        skip.add("Row")
    if not c["NodeErrors"]:
        skip.add("NodeSendError")
    if not c["Faults"]:
        skip.add("Die")
    if not c["Cancels"]:
        skip |= {"CancelSend", "CancelStop"}
        if c["MQS"] == 0:
            skip.add("NodeRecv")           # no REVISE_REQUEST is ever sent
    return [a for a in ACTIONS if a not in skip]


def A(name, a=0, b=0):
    return {"name": name, "a": a, "b": b}


# ---------------------------------------------------------------------- probes of the real objects
LATE_ACTIONS = [A("NodeSendPage", 1, 1), A("Deliver"), A("Call"), A("Enter")]
LATE2_ACTIONS = [A("NodeSendPage", 1, 0), A("NodeSendPage", 2, 1), A("Deliver"), A("Deliver"), A("Close"),
                 A("Call"), A("Enter"), A("Call"), A("Enter"), A("Call"), A("Enter")]
BUSY_ACTIONS = [A("NodeSendPage", 1, 0), A("Deliver"), A("NodeSendPage", 2, 0), A("Deliver"), A("Call"), A("SocketBusy"),
                A("Enter"), A("SocketWritable")]
CLOSE_ACTIONS = [A("NodeSendPage", 1, 0), A("Deliver"), A("Close")]


def _run_probe(rc, consts, actions):
    try:
        return rc.replay_actions(consts, actions)[-1], None
    except Exception as ex:          # noqa - a probe must not crash the check on a changed driver
        return None, "%s: %s" % (type(ex).__name__, ex)


def probe_late_backpressure(rc):
    """Does the session go on with back-pressure requests after it has stopped (last page received)?"""
    c = dict(BASE, MaxPages=1, LateBP=True)
    p, err = _run_probe(rc, c, LATE_ACTIONS)
    c2 = dict(BASE, MaxPages=2, LateBP=True)
    p2, err2 = _run_probe(rc, c2, LATE2_ACTIONS)
    requests = bool(p and any(m["t"].startswith("more") for m in p["out"]))
    spurious = bool(p2 and p2["cons"] == "raised" and p2["got"] == [[1, 1], [2, 1]])
    return {"request_after_last_page": requests, "complete_result_raises": spurious, "probe_errors": [e for e in (err, err2) if e],
            "observed": {"out": p and p["out"], "cons": p2 and p2["cons"], "raisedWith": p2 and p2["raisedWith"], "got": p2 and p2["got"]}}


def probe_busy(rc):
    """ConnectionBusy while asking for more pages: does it leave the generator dead and the session registered?"""
    c = dict(BASE, MaxPages=3, Busy=True, LateBP=True)
    p, err = _run_probe(rc, c, BUSY_ACTIONS)
    orphan = bool(p and p["cons"] == "raised" and p["raisedWith"] == rc.E_BUSY and p["sess"] == "open" and not p["wire"]
                  and not p["out"] and p["nsent"] == p["window"] and not p["closed"])
    return {"orphan": orphan, "probe_error": err,
            "observed": p and {k: p[k] for k in ("cons", "raisedWith", "sess", "got", "queue", "requested", "received", "window", "nsent")}}


def probe_close_fails_sessions(rc):
    c = dict(BASE, MQS=0, LateBP=True)
    p, err = _run_probe(rc, c, CLOSE_ACTIONS)
    return bool(p and any(x < 0 for x in p["queue"] if isinstance(x, int)))


# ---------------------------------------------------------------------- vacuity witnesses on explored graphs
def _errs(n):
    return [x for x in n["queue"] if x < 0]


def _pages(n):
    return [x for x in n["queue"] if x > 0]


WITNESS = {
    "Witness_FullResult": lambda c, n: n["cons"] == "ended" and n["lastAt"] == c["MaxPages"] and n["xst"] == "idle",
    "Witness_Waited": lambda c, n: n["act"]["name"] == "Wake" and n["act"]["a"] == 0,
    "Witness_MoreRequested": lambda c, n: any(m["t"] == "more" for m in n["out"]),
    "Witness_WindowExhausted": lambda c, n: c["MQS"] > 0 and n["nstate"] == "active" and n["nsent"] == n["window"] and n["nsent"] < c["MaxPages"],
    "Witness_ErrorAfterPages": lambda c, n: n["cons"] == "raised" and len(n["got"]) >= 2,
    "Witness_ErrorQueuedBehindPages": lambda c, n: len(_pages(n)) >= 1 and len(_errs(n)) >= 1,
    "Witness_CancelWhileWaiting": lambda c, n: n["act"]["name"] == "CancelStop" and n["cons"] == "waiting" and n["notified"],
    "Witness_CancelledEnd": lambda c, n: n["cons"] == "ended" and n["xst"] == "done" and n["lastAt"] == 0,
    "Witness_TwoErrorsQueued": lambda c, n: len(_errs(n)) >= 2,
    "Witness_DeadRequestMore": lambda c, n: n["act"]["name"] in ("Enter", "Wake") and (n["defunct"] or n["closed"]) and
                                            len(n["queue"]) > 0 and n["queue"][-1] == -3 and n["cons"] == "next",
    "Witness_EmptyPage": lambda c, n: n["cons"] == "acq" and n["cur"]["p"] > 0 and n["cur"]["p"] in c["EmptyPages"],
    "Witness_Busy": lambda c, n: n["raisedWith"] == -5,
    "Witness_Refused": lambda c, n: any(m["t"] == "moreerr" for m in n["wire"]),
    "Witness_SilentClose": lambda c, n: n["closed"] and not n["defunct"] and not c["CloseFailsSessions"] and
                                        n["cons"] == "waiting" and n["sess"] == "open",
}
QUICK_WITNESSES = ["Witness_FullResult", "Witness_Waited", "Witness_MoreRequested", "Witness_ErrorAfterPages",
                   "Witness_ErrorQueuedBehindPages", "Witness_CancelWhileWaiting", "Witness_CancelledEnd",
                   "Witness_TwoErrorsQueued", "Witness_DeadRequestMore", "Witness_EmptyPage", "Witness_SilentClose"]

NONTRIVIAL = {"SocketError", "Close", "CancelSend", "NodeSendError", "Wake", "SocketBusy"}


def _acts_of(res):
    return [dict(s.get("act", {})) for _, s in res.trace()][1:]


def _spec_violation(ctx, res, label, consts):
    ctx.violation("TLC: %s violated on ContinuousPaging.tla (%s)" % (res.invariant or "deadlock", label),
                  replay={"constants": consts, "actions": _acts_of(res), "spec_only": True},
                  signature="spec:%s:%s" % (res.invariant, label.split(",")[0]))


def run_cpaging(ctx):
    from harness.replay import cpaging as rc
    S = ctx.scratch

    # ---- what the code under test does where the intended design and the pinned code may differ
    late = probe_late_backpressure(rc)
    busy = probe_busy(rc)
    close_fails = probe_close_fails_sessions(rc)
    late_bp = late["request_after_last_page"] or late["complete_result_raises"]
    ctx.note("probe_late_backpressure", late)
    ctx.note("probe_busy", busy)
    ctx.note("code_follows_CloseFailsSessions", close_fails)
    if late_bp:
        ctx.violation("the session keeps doing back-pressure bookkeeping after it has stopped: after the page flagged last "
                      "(stream id already given back) the next pop sends REVISE_REQUEST 'more pages' for that stream id "
                      "(request_after_last_page=%s); on a connection closed after the complete result was received the same "
                      "step raises ConnectionShutdown to the application after the last row (complete_result_raises=%s)"
                      % (late["request_after_last_page"], late["complete_result_raises"]),
                      replay={"constants": dict(BASE, MaxPages=2, LateBP=True), "actions": LATE2_ACTIONS,
                              "expect": "cons = ended after rows [1,1],[2,1]; the code raises ConnectionShutdown"},
                      signature=SIG_LATE)
    if busy["orphan"]:
        ctx.violation("ConnectionBusy raised by send_msg inside maybe_request_more escapes from the results() generator: the "
                      "popped page is lost, the iteration is dead, nobody cancels the stream: the session stays registered "
                      "and its stream id is never given back (observed %s)" % (busy["observed"],),
                      replay={"constants": dict(BASE, MaxPages=3, Busy=True, LateBP=True), "actions": BUSY_ACTIONS,
                              "expect": "no registered session is left behind by a dead consumer (NoOrphanSession)"},
                      signature=SIG_BUSY)
    asis = dict(BASE, LateBP=late_bp, CloseFailsSessions=close_fails)

    # ---- 1. the intended design satisfies every property, liveness included (fairness, no state constraint, and
    #         without the 5 s wait timeout: a lost wake-up would show as a consumer waiting forever)
    ic = dict(BASE, MaxPages=3, CloseFailsSessions=True, LateBP=False, Timeouts=False)
    icfg = tlc.write_cfg(os.path.join(S, "cp_intended.cfg"), spec="FairSpec", constants=ic, invariants=invariants_for(ic),
                         properties=properties_for(ic) + LIVE_PROPS, deadlock=False)
    ires = tlc.check_model("ContinuousPaging", icfg, S, timeout=1200)
    ctx.add_tlc(ires, "intended design, safety + liveness, MaxPages=3 MQS=2")
    if ires.violation:
        _spec_violation(ctx, ires, "intended design", ic)
        return

    # ---- 2. the model the code is bound to: invariants, liveness, state graphs
    #         (quick: safety only; thorough: liveness as well, here and on the larger constants below)
    ac = dict(asis, MaxPages=3, Timeouts=ctx.quick)
    if ctx.quick:
        acfg = tlc.write_cfg(os.path.join(S, "cp_asis.cfg"), constants=ac, invariants=invariants_for(ac),
                             properties=properties_for(ac), deadlock=False)
    else:
        acfg = tlc.write_cfg(os.path.join(S, "cp_asis_live.cfg"), spec="FairSpec", constants=ac, invariants=invariants_for(ac),
                             properties=properties_for(ac) + LIVE_PROPS, deadlock=False)
    ares = tlc.check_model("ContinuousPaging", acfg, S, timeout=1200)
    ctx.add_tlc(ares, "pinned behaviour, %s, MaxPages=3 MQS=2" % ("safety" if ctx.quick else "safety + liveness"))
    if ares.violation:
        _spec_violation(ctx, ares, "pinned behaviour", ac)
        return

    graph_consts = [("2 pages, queue 2, cancel + faults + node errors", dict(asis)),
                    ("DSE_V1 (no back-pressure state), empty first page, 2 rows",
                     dict(asis, MaxPages=3, MQS=0, NRows=2, EmptyPages={1}, Cancels=False))]
    if not ctx.quick:
        graph_consts += [
            ("3 pages, queue 2", dict(asis, MaxPages=3)),
            ("3 pages, queue 3, socket error only", dict(asis, MaxPages=3, MQS=3, Faults={"SocketError"})),
            ("DSE_V1, 3 pages", dict(asis, MaxPages=3, MQS=0)),
            ("empty page, 2 rows, close, node refuses late requests", dict(asis, NRows=2, EmptyPages={1}, Faults={"Close"}, RefuseLate=True)),
            ("unwritable socket", dict(asis, Busy=True, Faults=set(), NodeErrors=False)),
            ("node silent after cancel, notify-only wake", dict(asis, CancelTerminal=False, Timeouts=False, NodeErrors=False, Faults={"SocketError"})),
            ("4 pages, queue 4, no cancel", dict(asis, MaxPages=4, MQS=4, Cancels=False, NodeErrors=False, Faults={"SocketError"})),
        ]
    graphs = []
    zero = []
    for label, gc in graph_consts:
        cfg = tlc.write_cfg(os.path.join(S, "cp_graph.cfg"), constants=gc, invariants=invariants_for(gc),
                            properties=properties_for(gc), deadlock=False)
        res, nodes, edges, init = tlc.state_graph("ContinuousPaging", cfg, S, coverage=True, timeout=1800)
        ctx.add_tlc(res, "exhaustive, " + label)
        if res.violation:
            _spec_violation(ctx, res, label, gc)
            return
        cov = res.coverage()
        zero += ["%s (%s)" % (a, label) for a in expected_actions(gc) if a in cov and cov[a][1] == 0]
        missing = [a for a in expected_actions(gc) if a not in cov]
        if missing:
            raise tlc.MachineryError("coverage report lacks actions %s (%s)" % (missing, label))
        graphs.append((label, gc, nodes, edges, init))
    if zero:
        raise tlc.MachineryError("actions never taken in an exhaustive model: %s" % zero)
    ctx.note("coverage_zero_actions", zero)
    ctx.note("constants", {label: gc for label, gc, _, _, _ in graphs})

    # ---- vacuity: the interesting situations occur in the explored graphs (evaluated on TLC's states) ...
    wanted = QUICK_WITNESSES if ctx.quick else list(WITNESS)
    if not any(gc["Faults"] >= {"Close"} and not gc["CloseFailsSessions"] for _, gc, _, _, _ in graphs):
        wanted = [w for w in wanted if w != "Witness_SilentClose"]
    if not late_bp:          # the intended design queues at most one error
        wanted = [w for w in wanted if w != "Witness_TwoErrorsQueued"]
    missing = [w for w in wanted if not any(WITNESS[w](gc, n) for _, gc, gn, _, _ in graphs for n in gn.values())]
    if missing:
        raise tlc.MachineryError("vacuity witnesses not reachable in the explored graphs: %s" % missing)
    ctx.note("vacuity_witnesses_reached", len(wanted))

    if not ctx.quick:
        # ... and TLC itself must violate each Witness_* (negated reachability) on a model with every switch on
        wc = dict(asis, MaxPages=3, EmptyPages={2}, Busy=True, RefuseLate=True)
        for w in WITNESS:
            if (w == "Witness_SilentClose" and close_fails) or (w == "Witness_TwoErrorsQueued" and not late_bp):
                continue
            # with an empty second page only two rows exist, and "an error after two rows" then needs an error after
            # the complete result - which only the (repaired) late back-pressure deviation produced: no empty page here
            wcw = dict(wc, EmptyPages=set()) if (w == "Witness_ErrorAfterPages" and not late_bp) else wc
            wcfg = tlc.write_cfg(os.path.join(S, "cp_wit.cfg"), constants=wcw, invariants=[w], deadlock=False)
            wres = tlc.check_model("ContinuousPaging", wcfg, S, timeout=2400)
            if wres.invariant != w:
                raise tlc.MachineryError("vacuity: TLC does not reach %s" % w)
        ctx.note("tlc_witnesses_violated", len(WITNESS))
        # the deviation matters at the specification level: with the pinned behaviour the two properties of the intended
        # design are violated (TLC gives the shortest history), and the counterexample is a real execution
        if late_bp:
            for inv, props in ((INTENDED_INV, []), ([], INTENDED_PROPS)):
                dc = dict(asis, MaxPages=2)
                dcfg = tlc.write_cfg(os.path.join(S, "cp_dev.cfg"), constants=dc, invariants=inv, properties=props, deadlock=False)
                dres = tlc.check_model("ContinuousPaging", dcfg, S, timeout=600)
                ctx.add_tlc(dres, "pinned behaviour against %s (expected to fail)" % (inv + props)[0])
                if not dres.violation:
                    raise tlc.MachineryError("LateBP=TRUE does not violate %s: deviation constant has no effect" % (inv + props))
                states = [s for _, s in dres.trace()]
                d = rc.replay(dc, states)
                ctx.note("counterexample_%s" % (inv + props)[0], {"actions": [dict(s["act"]) for s in states[1:]],
                                                                  "reproduced_on_real_objects": d is None})
        # environment assumptions made explicit: the release logic needs a node that ends a cancelled stream with a frame
        for label, xc, xinv in (("Assumption_CancelTerminal", dict(asis, CancelTerminal=False), ORPHAN_INV),
                                ("Busy_orphans_session", dict(asis, MaxPages=3, Busy=True), ORPHAN_INV)):
            xcfg = tlc.write_cfg(os.path.join(S, "cp_x.cfg"), constants=xc, invariants=xinv, deadlock=False)
            xres = tlc.check_model("ContinuousPaging", xcfg, S, timeout=600)
            states = [s for _, s in xres.trace()] if xres.violation else []
            d = rc.replay(xc, states) if states else "no counterexample"
            ctx.note(label, {"NoOrphanSession_violated": bool(xres.violation), "actions": [dict(s["act"]) for s in states[1:]],
                             "reproduced_on_real_objects": d is None})
            if label == "Busy_orphans_session" and bool(xres.violation) != bool(busy["orphan"]):
                raise tlc.MachineryError("probe and model disagree about ConnectionBusy: probe %s, TLC %s" % (busy, xres.violation))
        # larger constants, model checking only
        for label, bc in (("4 pages, queue 2, everything but busy", dict(asis, MaxPages=4, RefuseLate=True)),
                          ("4 pages, queue 3, 2 rows, empty page", dict(asis, MaxPages=4, MQS=3, NRows=2, EmptyPages={2})),
                          ("4 pages, queue 4", dict(asis, MaxPages=4, MQS=4)),
                          ("3 pages, queue 2, unwritable socket", dict(asis, MaxPages=3, Busy=True))):
            bc = dict(bc, Timeouts=False)
            bcfg = tlc.write_cfg(os.path.join(S, "cp_big.cfg"), spec="FairSpec", constants=bc, invariants=invariants_for(bc),
                                 properties=properties_for(bc) + LIVE_PROPS, deadlock=False)
            bres = tlc.check_model("ContinuousPaging", bcfg, S, timeout=3000)
            ctx.add_tlc(bres, "safety + liveness, " + label)
            if bres.violation:
                _spec_violation(ctx, bres, label, bc)
                return

    # ---- 3. spec -> code: replay walks covering every edge of the state graphs
    per_sig = {}

    def report(what, replay_obj, signature, cap=3):
        """At most `cap` replay files per class of failure; the rest are counted."""
        per_sig[signature] = per_sig.get(signature, 0) + 1
        if per_sig[signature] <= cap:
            ctx.violation(what, replay=replay_obj, signature=signature)
    replayed = 0
    total_edges = total_covered = 0
    selftest_replay = 0
    for label, gc, gnodes, gedges, ginit in graphs:
        walks = tlc.graph_walks(gnodes, gedges, ginit, rng=ctx.rng, max_walks=10 ** 6, max_len=40,
                                random_walks=50 if ctx.quick else 500)
        covered = set()
        for w in walks:
            covered.update(zip(w, w[1:]))
        total_edges += len(set((s, d) for s, d, _ in gedges))
        total_covered += len(covered)
        for w in walks:
            states = [gnodes[n] for n in w]
            d = rc.replay(gc, states)
            replayed += 1
            acts = [dict(s["act"]) for s in states[1:]]
            if any(a["name"] in NONTRIVIAL for a in acts):
                ctx.nontrivial(tuple((a["name"], a["a"], a["b"]) for a in acts))
            if replayed % 1500 == 1:
                ctx.sample({"direction": "spec->code", "model": label, "actions": acts})
            if d:
                step = d["step"]
                name = d["action"]["name"] if isinstance(d["action"], dict) else d["action"]
                report("replay diverges at step %d (%s) [%s]: %s" % (step, d["action"], label, d["diff"]),
                       {"constants": gc, "actions": acts[:step], "divergence": d},
                       "replay:%s:%s" % (name, ",".join(sorted(d["diff"]))))
            elif not selftest_replay and len(states) >= 6:
                # binding self-test, replay direction: one flipped expectation in a behaviour the code follows must be noticed
                flipped = [dict(x) for x in states]
                k = len(flipped) // 2
                flipped[k]["requested"] = flipped[k]["requested"] + 1
                d2 = rc.replay(gc, flipped)
                if not d2 or d2["step"] != k or "requested" not in d2["diff"]:
                    raise tlc.MachineryError("binding self-test failed: flipped expectation not noticed by replay (%s)" % (d2,))
                selftest_replay = 1
    if not selftest_replay and not per_sig:
        raise tlc.MachineryError("binding self-test (replay direction) found no behaviour long enough")
    ctx.note("graph_edges", total_edges)
    ctx.note("graph_edges_replayed", total_covered)
    ctx.note("exhaustive", total_covered == total_edges)
    ctx.traces_validated += replayed
    ctx.note("behaviours_replayed", replayed)

    # ---- 4. code -> spec: recorded random runs validated by TLC against Trace_ContinuousPaging.tla
    trace_consts = [dict(asis, MaxPages=4, MQS=3, NRows=2, EmptyPages={2}, RefuseLate=True, Busy=True)]
    if not ctx.quick:
        trace_consts += [dict(asis, MaxPages=4, MQS=2, RefuseLate=True, Busy=True),
                         dict(asis, MaxPages=4, MQS=4, NRows=2, Busy=True),
                         dict(asis, MaxPages=3, MQS=0, NRows=2, EmptyPages={1}),
                         dict(asis, MaxPages=4, MQS=2, CancelTerminal=False)]
    n_tr = 250 if ctx.quick else 1500
    recorded = accepted = 0
    corrupted = dropped = 0
    for ti, tc in enumerate(trace_consts):
        traces = [rc.record(tc, ctx.rng, max_events=60) for _ in range(n_tr)]
        good = len(traces)
        # binding self-test, trace direction: a corrupted field / a dropped event must be rejected.  Several victims, judged
        # on the first one whose unmodified trace the specification accepts (a changed driver may make genuine rejections).
        victims = [i for i, t in enumerate(traces) if len(t) >= 8 and all("post" in e for e in t[:8])][:4]
        if not victims:
            raise tlc.MachineryError("no recorded trace long enough for the binding self-test")
        for vi in victims:
            bad1 = copy.deepcopy(traces[vi])
            bad1[5]["post"]["requested"] += 1
            bad2 = copy.deepcopy(traces[vi])
            del bad2[1]
            traces += [bad1, bad2]
        tcfg = tlc.write_cfg(os.path.join(S, "cp_trace.cfg"), init="TraceInit", next="TraceNext", constants=tc,
                             invariants=invariants_for(tc), constraints=["Progress"], postcondition="Done", deadlock=False)
        tres, prog = tlc.validate_traces("Trace_ContinuousPaging", tcfg, traces, S, timeout=1800)
        ctx.add_tlc(tres, "trace validation %d" % ti)
        if tres.violation:
            tr = [dict(s) for _, s in tres.trace()]
            tid = tr[-1].get("tid") if tr else None
            evs = traces[tid - 1][:tr[-1].get("l", 1) - 1] if tid else []
            ctx.violation("invariant %s violated in a state of a recorded execution" % tres.invariant,
                          replay={"constants": tc, "actions": [A(e["e"], e.get("a", 0), e.get("b", 0)) for e in evs if "post" in e]},
                          signature="trace-inv:%s" % tres.invariant)
            return
        judged = False
        for j, vi in enumerate(victims):
            if prog[vi] != len(traces[vi]) + 1:
                continue                  # the original is (genuinely) rejected: reported below, no verdict from this victim
            if prog[good + 2 * j] != 6 or prog[good + 2 * j + 1] > len(traces[good + 2 * j + 1]):
                raise tlc.MachineryError("binding self-test failed: corrupted/dropped trace accepted (%s, %s)"
                                         % (prog[good + 2 * j], prog[good + 2 * j + 1]))
            judged = True
            break
        if judged:
            corrupted += 1
            dropped += 1
        elif all(prog[i] == len(traces[i]) + 1 for i in range(good)):
            raise tlc.MachineryError("binding self-test could not be judged")
        for i in range(good):
            t = traces[i]
            if prog[i] == len(t) + 1:
                accepted += 1
                if any(e["e"] in NONTRIVIAL for e in t):
                    ctx.nontrivial(("trace", ti, i, len(t)))
                continue
            ev = t[prog[i] - 1]
            report("recorded execution rejected by the specification at event %d: %s" % (prog[i], {k: v for k, v in ev.items()}),
                   {"constants": tc, "actions": [A(e["e"], e.get("a", 0), e.get("b", 0)) for e in t[:prog[i]] if "post" in e],
                    "rejected_event": ev},
                   "trace:%s" % (ev.get("during", ev)["e"]))
        recorded += good
        if ti == 0:
            ctx.sample({"direction": "code->spec", "events": [{k: v for k, v in e.items() if k != "post"} for e in traces[0][:16]]})
    if per_sig:
        ctx.note("violations_by_signature", per_sig)
    ctx.note("binding_selftest", {"corrupted_rejected": corrupted, "dropped_rejected": dropped, "flipped_expectation_noticed": selftest_replay})
    ctx.traces_validated += accepted
    ctx.note("traces_recorded", recorded)
    ctx.note("traces_accepted", accepted)
    ctx.evaluations = replayed + recorded
    ctx.assumptions += [
        "loop-thread callbacks (process_msg, defunct, close) are atomic w.r.t. each other; application threads interleave with "
        "them at every acquisition of the session's condition (DetSched yield points), not inside a critical section",
        "the node: FIFO in both directions, sends pages only within the window it was granted, nothing on the stream after the "
        "last page / an error; a stream cancelled while active is ended with one error frame (CancelTerminal; without it the "
        "driver never gives the stream id back - see Assumption_CancelTerminal in the evidence)",
        "SimConnection reproduces the reactors' close()/push()/read contract; FakeNode's codec is right",
        "one paging session per connection; small scope: <=4 pages, max_queue_size <=4, <=2 rows per page",
    ]


def replay_cpaging(ctx, obj):
    from harness.replay import cpaging as rc
    consts = dict(obj["constants"])
    for k in ("EmptyPages", "Faults"):
        consts[k] = set(consts.get(k, ()))
    acts = list(obj.get("actions", []))
    if obj.get("divergence") and isinstance(obj["divergence"].get("action"), dict):
        acts.append(obj["divergence"]["action"])
    if obj.get("spec_only"):
        print("counterexample of the specification itself (TLC):")
    h = rc.CPHarness(consts)
    try:
        for a in acts:
            print("->", a)
            try:
                h.do(a)
            except Exception as ex:      # noqa
                print("    harness could not perform: %s: %s" % (type(ex).__name__, ex))
                break
            print("   ", h.project())
    finally:
        h.shutdown()
    if obj.get("expect"):
        print("expected:", obj["expect"])
    if obj.get("divergence"):
        print("divergence:", obj["divergence"].get("diff"))
