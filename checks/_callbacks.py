"""C14 sub-check: the callback hand-over race (spec/Callbacks.tla bound to the real ResponseFuture under DetSched line mode)."""
import copy
import os

from harness import tlc
from checks._request import cover_walks

INV = ["TypeOK", "Inv_AtMostOnce", "Inv_Outcome", "Inv_ExactlyOnce", "Inv_Lock"]
ALL = dict(Kinds={"res", "err"}, Ops={"cb", "eb", "both"}, PreChoices={True, False})
QUICK_GRAPHS = [("2 completers (second one finds the future complete) || 1 registering thread, a pre-registered pair",
                 dict(NC=2, NR=1, Kinds={"res", "err"}, Ops={"cb", "eb", "both"}, PreChoices={True}))]
THOROUGH_GRAPHS = [("2 completers || 1 registering thread, nothing pre-registered",
                    dict(NC=2, NR=1, Kinds={"res", "err"}, Ops={"cb", "eb", "both"}, PreChoices={False})),
                   ("1 completer || 2 registering threads", dict(NC=1, NR=2, **ALL))]
BIG = ("2 completers || 2 registering threads", dict(NC=2, NR=2, **ALL))
TRACE_CONSTS = dict(NC=2, NR=2, **ALL)
ACTIONS = ["Acq", "CSet", "CSnap", "CRel", "CRelAbort", "CEvt", "CRun", "RAppend", "RRel", "RRunNow"]
TLA_WITNESSES = ["Witness_RunNow", "Witness_Abort", "Witness_SnapHasLate", "Witness_AppendBetween"]


def _tup(v, first=1):
    return list(v) if isinstance(v, (tuple, list)) else [v[k] for k in sorted(v)]


WITNESS = {
    "a callback registered after completion runs on the spot": lambda s: "runnow" in _tup(s["pc"]),
    "second completion aborted": lambda s: s["act"]["name"] == "CRelAbort",
    "snapshot contains a handler registered by a racing thread": lambda s: any(any(h != 0 for h in sn) for sn in _tup(s["snap"])),
    "handler appended between the completer's unlock and its last invocation": lambda s: s["act"]["name"] == "RAppend"
    and any(p in ("released", "run") for p in _tup(s["pc"])),
}


def _acts(states):
    return [(str(s["act"]["name"]), s["act"]["t"]) for s in states[1:]]


def run(ctx):
    from harness.replay import callbacks as cbm
    seen = set()
    wit = {k: False for k in WITNESS}
    replayed = conform = blocked = 0
    reported = {}
    ctx.note("cb_graph_edges", 0)
    ctx.note("cb_graph_edges_replayed", 0)

    def report(dv, consts, states, direction):
        sig = "callbacks:%s:%s" % (dv["kind"], dv["action"].get("name"))
        n = reported.get(sig, 0)
        reported[sig] = n + 1
        if n >= 3:
            return
        ctx.violation("%s: the real ResponseFuture diverges from Callbacks.tla at step %d (%s): %s"
                      % (direction, dv["step"], dv["action"], dv["diff"]),
                      replay={"callbacks": True, "constants": {k: (sorted(v) if isinstance(v, (set, frozenset)) else v) for k, v in consts.items()},
                              "config": cbm.config_of(consts, states[0]), "actions": _acts(states)[:dv["step"]], "divergence": dv},
                      signature=sig)

    def check(label, consts, graph):
        cfg = tlc.write_cfg(os.path.join(ctx.scratch, "cb_%d.cfg" % len(ctx.extra.get("tlc_runs", []))), constants=consts,
                            invariants=INV, deadlock=False)
        if graph:
            res, nodes, edges, init = tlc.state_graph("Callbacks", cfg, ctx.scratch, timeout=900)
        else:
            res, nodes, edges, init = tlc.check_model("Callbacks", cfg, ctx.scratch, timeout=900), None, None, None
        ctx.add_tlc(res, "Callbacks: " + label)
        if res.violation:
            ctx.violation("TLC: %s violated on Callbacks.tla (%s)" % (res.invariant, label),
                          replay={"callbacks": True, "trace": [dict(s.get("act", {})) for _, s in res.trace()]},
                          signature="spec:Callbacks:%s" % res.invariant)
            return None
        return res, nodes, edges, init

    graphs = QUICK_GRAPHS + ([] if ctx.quick else THOROUGH_GRAPHS)
    selftest_done = False
    for label, consts in graphs:
        r = check(label, consts, True)
        if r is None:
            return
        _, nodes, edges, init = r
        for s in nodes.values():
            seen.add(str(s["act"]["name"]))
            for k, f in WITNESS.items():
                if not wit[k] and f(s):
                    wit[k] = True
        walks = cover_walks(nodes, edges, init, max_len=80)
        covered = set()
        for w in walks:
            covered.update(zip(w, w[1:]))
        ctx.extra["cb_graph_edges"] += len(set((a, b) for a, b, _ in edges))
        ctx.extra["cb_graph_edges_replayed"] += len(covered)
        for n, w in enumerate(walks):
            states = [nodes[x] for x in w]
            dv, b = cbm.replay(consts, states)
            replayed += 1
            blocked += b
            if dv:
                report(dv, consts, states, "replay")
            else:
                conform += 1
            acts = _acts(states)
            if len(set(t for _, t in acts)) >= 2:
                ctx.nontrivial(("cb",) + tuple(acts))
            if n % 700 == 0:
                ctx.sample({"direction": "spec->code (callback hand-over, line-level)", "config": cbm.config_of(consts, states[0]),
                            "actions": [list(a) for a in acts], "conforms": dv is None})
        if not selftest_done:
            w = next((w for w in walks if len(w) >= 4), None)
            if w is not None:
                states = [nodes[x] for x in w]
                dv, _ = cbm.replay(consts, states, corrupt=(2, "final", "flipped"))
                if not dv or "final" not in dv.get("diff", {}):
                    raise tlc.MachineryError("callbacks binding self-test failed: a flipped expectation was not noticed")
                selftest_done = True
    missing = [a for a in ACTIONS if a not in seen]
    if missing:
        raise tlc.MachineryError("Callbacks.tla actions never taken: %s" % missing)
    unreached = [k for k, v in wit.items() if not v]
    if unreached:
        raise tlc.MachineryError("Callbacks.tla vacuity witnesses not reachable: %s" % unreached)
    ctx.note("cb_exhaustive", ctx.extra["cb_graph_edges"] == ctx.extra["cb_graph_edges_replayed"])
    ctx.note("cb_vacuity_witnesses_reached", sorted(wit))

    if not ctx.quick:
        for wname in TLA_WITNESSES:
            wcfg = tlc.write_cfg(os.path.join(ctx.scratch, wname + ".cfg"), constants=QUICK_GRAPHS[0][1], invariants=[wname], deadlock=False)
            wres = tlc.check_model("Callbacks", wcfg, ctx.scratch, timeout=600)
            if wres.invariant != wname:
                raise tlc.MachineryError("vacuity witness %s not reachable according to TLC" % wname)
        label, big = BIG
        if check("exhaustive (thorough): " + label, big, False) is None:
            return
        scfg = tlc.write_cfg(os.path.join(ctx.scratch, "cbsim.cfg"), constants=big, invariants=INV, deadlock=False)
        sres, behs = tlc.simulate("Callbacks", scfg, ctx.scratch, num=1500, depth=60, seed=ctx.seed, timeout=600)
        for b in behs:
            if len(b) < 2:
                continue
            dv, bl = cbm.replay(big, b)
            replayed += 1
            blocked += bl
            if dv:
                report(dv, big, b, "replay(simulated)")
            else:
                conform += 1
            ctx.nontrivial(("cb",) + tuple(_acts(b)))

    # ---- code -> spec: seeded random line-level schedules of the real methods
    n_tr = 150 if ctx.quick else 2500
    traces, problems = [], 0
    for i in range(n_tr):
        t, summ = cbm.record(TRACE_CONSTS, ctx.rng)
        traces.append(t)
        for p in summ["problems"]:
            problems += 1
            kind = "twice" if "2 times" in p or "3 times" in p else ("never" if "0 times" in p else "other")
            sig = "callbacks:handler-invoked-%s" % kind
            n = reported.get(sig, 0)
            reported[sig] = n + 1
            if n < 3:
                ctx.violation("random line-level schedule of the real ResponseFuture methods: %s (kinds %s, ops %s, pre-registered %s)"
                              % (p, summ["kinds"], summ["ops"], summ["pre"]),
                              replay={"callbacks": True, "events": t}, signature=sig)
    good = len(traces)
    victims = [i for i, t in enumerate(traces) if len(t) >= 8 and t[-1]["e"] == "end"][:8]
    for i in victims:
        bad1 = copy.deepcopy(traces[i])
        del bad1[3]
        bad2 = copy.deepcopy(traces[i])
        calls = [e for e in bad2 if e["e"] == "call"]
        if calls:
            bad2.insert(bad2.index(calls[-1]), dict(calls[-1]))       # the same handler invoked twice
        else:
            bad2[-1]["post"]["final"] = "flipped"
        traces += [bad1, bad2]
    tcfg = tlc.write_cfg(os.path.join(ctx.scratch, "cbtrace.cfg"), init="TraceInit", next="TraceNext", constants=TRACE_CONSTS,
                         invariants=INV, constraints=["Progress"], postcondition="Done", deadlock=False)
    tres, prog = tlc.validate_traces("Trace_Callbacks", tcfg, traces, ctx.scratch, timeout=1800)
    ctx.add_tlc(tres, "Callbacks: trace validation")
    if tres.violation:
        ctx.violation("invariant %s of Callbacks.tla violated in a state of a recorded schedule" % tres.invariant,
                      replay={"callbacks": True, "trace": [dict(s) for _, s in tres.trace()][-3:]},
                      signature="callbacks:trace-inv:%s" % tres.invariant)
        return
    tested = 0
    for n, i in enumerate(victims):
        if prog[i] != len(traces[i]) + 1:
            continue
        for j in (good + 2 * n, good + 2 * n + 1):
            if prog[j] == len(traces[j]) + 1:
                raise tlc.MachineryError("callbacks binding self-test failed: a corrupted trace was accepted")
        tested += 1
    accepted = 0
    for i in range(good):
        t = traces[i]
        if prog[i] == len(t) + 1:
            accepted += 1
            ctx.nontrivial(("cbtrace", i, len(t)))
            continue
        ev = t[prog[i] - 1] if prog[i] >= 1 else t[0]
        sig = "callbacks:trace:%s" % ev["e"]
        n = reported.get(sig, 0)
        reported[sig] = n + 1
        if n < 3:
            ctx.violation("recorded line-level schedule rejected by Callbacks.tla at event %d: %s (previous: %s)"
                          % (prog[i] - 1, ev, t[max(1, prog[i] - 4):prog[i] - 1]),
                          replay={"callbacks": True, "events": t[:prog[i]]}, signature=sig)
    if not tested and accepted == good and good:
        raise tlc.MachineryError("callbacks binding self-test could not run")
    ctx.sample({"direction": "code->spec (callback hand-over)", "events": traces[0][:14]})
    ctx.traces_validated += conform + accepted
    ctx.note("cb_behaviours_replayed", replayed)
    ctx.note("cb_behaviours_conforming", conform)
    ctx.note("cb_blocked_on_lock_checks", blocked)
    ctx.note("cb_schedules_recorded", good)
    ctx.note("cb_schedules_accepted", accepted)
    ctx.note("cb_schedules_violating_the_property_directly", problems)
    ctx.note("cb_selftest", {"flipped_expectation_noticed": int(selftest_done), "corrupted_traces_rejected": 2 * tested})
    ctx.note("cb_divergence_classes_reported", dict(reported))
    ctx.evaluations += replayed + good
    ctx.assumptions += [
        "callback hand-over: pre-emption at every source line of _set_final_result/_set_final_exception/add_callback/add_errback/"
        "add_callbacks and at the lock; <= 2 completing and <= 2 registering threads; handlers themselves do not use the future",
    ]


def replay(ctx, obj):
    from harness.replay import callbacks as cbm
    if "actions" in obj:
        print("config (kinds, ops, pre):", obj["config"])
        for a in obj["actions"]:
            print("  ", a)
        print("divergence:", obj["divergence"])
    else:
        for e in obj.get("events", obj.get("trace", [])):
            print(e)
    del cbm
