"""C27 - CQL identifiers and literals produced by the driver read back unchanged.

Spec : spec/CqlLex.tla - Cassandra's lexer for identifiers / string literals / whitespace as a
       character-level automaton, the Cassandra 4.x RESERVED keyword list, the reference quoting.
TLC  : for every name over the alphabet {a A z 0 _ " ' space newline U+00E9 U+1D11E} up to MaxLen
       (+ all reserved keywords, some unreserved ones, mixed case, the BOOLEAN words, texts with backslashes:
       alone, doubled, next to either quote character) the automaton is run
       over Quote(n), MaybeQuote(n), QuoteStr(n) and the raw characters; invariants QuotedReadsBack,
       MaybeReadsBack, StringReadsBack, BareIff, AgreesWithLex.
Bind : every enumerated name is given to the real protect_name, maybe_escape_name, escape_name
       (cassandra.metadata), protect_value (str) and cql_quote (cassandra.encoder); the returned characters
       are a trace that TLC runs through the same automaton (Trace_CqlLex.tla): exactly one token, of the
       right kind, whose value is the original; an output that is not quoted needs BareOk(n) of the spec.
"""
import os
import re
import time

from harness import tlc
from harness.pyenv import repo_import
from harness.replay import cqllex

META = {
    "property_id": "C27",
    "engine": "CqlLex",
    "technique": "TLA+ character-level CQL lexer checked by TLC over all short names; every enumerated name is "
                 "quoted by the real functions and the produced characters are validated as a trace by the lexer spec",
    "level": "model_checking",
    "level_text": "TLC explores the lexer automaton exhaustively over every name/text up to MaxLen characters from an "
                  "alphabet holding one representative of every character class the lexer distinguishes (lower/upper "
                  "letter, digit, underscore, both quote characters, space, newline, a non-ASCII letter, a non-BMP "
                  "character) plus all 62 reserved keywords and texts with backslashes (alone, doubled, next to either quote "
                  "character: CQL has no backslash escapes), and proves the reference quoting reads back; the driver's "
                  "five quoting functions are then run on every one of these names and each output is accepted or "
                  "rejected by TLC running the same automaton over its characters. Exhaustive over the bounded domain; "
                  "the quoting functions treat characters uniformly within a class, so longer names add no new case "
                  "except position effects beyond MaxLen.",
    "level_note": "Trusted: TLC; the transcription of Cassandra's Lexer.g (IDENT, QUOTED_NAME, EMPTY_QUOTED_NAME, "
                  "STRING_LITERAL, WS, BOOLEAN, keyword tokens) and of ReservedKeywords (Cassandra 4.0) into CqlLex.tla; "
                  "the harness's split of the output into code points. Names bounded by MaxLen (3 quick / 4 thorough); "
                  "$$-quoted strings and comments are outside the alphabet.",
    "design_ref": "5.6 C27",
}

INVARIANTS = ["TypeOK", "QuotedReadsBack", "MaybeReadsBack", "StringReadsBack", "BareIff", "AgreesWithLex"]
WITNESSES = ["Witness_EscapedQuote", "Witness_ReservedBare", "Witness_NewlineSplits", "Witness_BareKept", "Witness_Backslash"]

# function name -> (module, kind of token wanted, may the function leave the name unquoted?)
FUNCS = {
    "protect_name": ("cassandra.metadata", "ident", True),
    "maybe_escape_name": ("cassandra.metadata", "ident", True),
    "escape_name": ("cassandra.metadata", "ident", False),
    "protect_value": ("cassandra.metadata", "str", False),
    "cql_quote": ("cassandra.encoder", "str", False),
}


def real_functions():
    return {fn: getattr(repo_import(mod), fn) for fn, (mod, _, _) in FUNCS.items()}


def call(funcs, fn, text):
    """-> (output or None, error text or None); never raises."""
    try:
        out = funcs[fn](text)
    except Exception as ex:                      # a (mutated) driver may raise: that is an unreadable output
        return None, "%s: %s" % (type(ex).__name__, ex)
    if not isinstance(out, str):
        return None, "returned %r, not a string" % (out,)
    return out, None


def signature(fn, kind, name, out, err):
    if err is not None:
        return "%s:raises" % fn
    if kind == "ident" and not out.startswith('"'):
        if name.endswith("\n") and cqllex.bare_ok(name[:-1]) and out == name:
            return "is_valid_name:trailing-newline-left-unquoted"
        if name in cqllex.BOOL_WORDS and out == name:
            return "is_valid_name:boolean-word-left-unquoted"
        if name.lower() in cqllex.RESERVED:
            return "%s:reserved-word-left-unquoted" % fn
        return "%s:unquoted-but-not-a-bare-identifier" % fn
    return "%s:does-not-read-back" % fn


def describe(fn, kind, name, out, err):
    if err is not None:
        return "%s(%r) %s" % (fn, name, err)
    toks = cqllex.mirror_lex(out)
    return ("%s(%r) returned %r, which CQL lexes as %r - wanted the single %s %r"
            % (fn, name, out, toks, "identifier" if kind == "ident" else "string", name))


class _Phases:
    """Wall time per phase, recorded in the evidence (information only)."""

    def __init__(self, ctx):
        self.ctx, self.t, self.d = ctx, time.time(), {}

    def done(self, name):
        now = time.time()
        self.d[name] = round(now - self.t, 1)
        self.t = now
        self.ctx.note("phase_wall_s", dict(self.d))


def run(ctx):
    ph = _Phases(ctx)
    consts = {"MaxLen": 3 if ctx.quick else 4}
    ctx.note("constants", consts)
    # ---- spec -> itself: exhaustive over names x forms
    cfg = tlc.write_cfg(os.path.join(ctx.scratch, "CqlLex.cfg"), constants=consts, invariants=INVARIANTS, deadlock=False)
    res = tlc.check_model("CqlLex", cfg, ctx.scratch, coverage=True, timeout=600 if ctx.quick else 3000)
    ctx.add_tlc(res, "exhaustive names x {raw, maybe, quoted, string}")
    ctx.note("exhaustive", True)
    if res.violation:
        ctx.violation("TLC: invariant %s violated in CqlLex.tla (the reference quoting does not read back)" % res.invariant,
                      replay={"trace": [s for _, s in res.trace()]}, signature="spec:" + str(res.invariant))
        return
    ph.done("tlc_exhaustive")
    cov = res.coverage()
    for act in ("Char", "End"):
        if cov.get(act, (0, 0))[0] == 0:
            raise tlc.MachineryError("action %s of CqlLex.tla was never taken (coverage %r)" % (act, cov))
    # ---- vacuity witnesses: all must be violated (small constants are enough)
    wcfg = tlc.write_cfg(os.path.join(ctx.scratch, "CqlLexW.cfg"), constants={"MaxLen": 2}, invariants=WITNESSES,
                         deadlock=False)
    wres = tlc.check_model("CqlLex", wcfg, ctx.scratch, timeout=600, extra=("-continue",))
    reached = set(re.findall(r'Invariant (\S+) is violated', wres.out))
    if reached != set(WITNESSES):
        raise tlc.MachineryError("vacuity witnesses not reached: %s" % sorted(set(WITNESSES) - reached))
    ctx.note("vacuity_witnesses_reached", len(WITNESSES))
    ph.done("tlc_witnesses")

    # ---- enumerate the names (initial states only) and bind
    ecfg = tlc.write_cfg(os.path.join(ctx.scratch, "CqlLexE.cfg"), init="InitNames", next="Stutter", constants=consts,
                         deadlock=False)
    eres, states = tlc.enumerate_states("CqlLex", ecfg, ctx.scratch, timeout=600)
    ctx.add_tlc(eres, "names enumerated for the binding")
    funcs = real_functions()
    traces, owners = [], []              # owners[i] = list of (fn, kind, name, out) sharing trace i
    index = {}
    failures = []                        # (fn, kind, name, out, err, why)
    bare_of = {}
    for st in states:
        name = cqllex.chars_to_str(st["n"])
        bare_of[name] = bool(st["bare"])
        if cqllex.bare_ok(name) != bool(st["bare"]):
            raise tlc.MachineryError("mirror BareOk differs from the specification on %r" % name)
        for fn, (_, kind, may_bare) in FUNCS.items():
            ctx.evaluations += 1
            out, err = call(funcs, fn, name)
            if err is not None:
                failures.append((fn, kind, name, out, err, "raises"))
                continue
            if kind == "ident" and not out.startswith('"') and not st["bare"]:
                # left unquoted although the specification says the bare word does not read back / is reserved
                failures.append((fn, kind, name, out, None, "unquoted-not-BareOk"))
                continue
            key = (kind, name, out)
            if key not in index:
                index[key] = len(traces)
                traces.append(cqllex.lex_trace(kind, name, out))
                owners.append([])
            owners[index[key]].append((fn, kind, name, out))
            if not st["bare"] or any(c in name for c in "\"'"):
                ctx.nontrivial((fn, name))
        if len(ctx.samples) < 4 and (len(name) >= 3 and ('"' in name or "'" in name)):
            ctx.sample({"name": name, "spec_BareOk": bool(st["bare"]),
                        "outputs": {fn: call(funcs, fn, name)[0] for fn in FUNCS}})
    n_real = len(traces)
    ph.done("bind_real_code")
    # binding self-test: corrupted traces that must be rejected
    probe = 'a"b'
    good = cqllex.lex_trace("ident", probe, '"a""b"')
    selftests = {
        "good": good,
        "want_changed": cqllex.lex_trace("ident", 'a"c', '"a""b"'),
        "closing_quote_dropped": good[:-2] + good[-1:],
        "escape_missing": cqllex.lex_trace("ident", probe, '"a"b"'),
        "class_flipped": [dict(e, cls="lower") if e.get("ch") == '"' else e for e in good],
        "kind_changed": cqllex.lex_trace("str", probe, '"a""b"'),
        "trailing_newline_bare": cqllex.lex_trace("ident", "abc\n", "abc\n"),
        "reserved_bare": cqllex.lex_trace("ident", "select", "select"),
    }
    st_names = list(selftests)
    traces += [selftests[k] for k in st_names]
    tcfg = tlc.write_cfg(os.path.join(ctx.scratch, "Trace_CqlLex.cfg"), init="TraceInit", next="TraceNext",
                         constants={"MaxLen": 0}, constraints=["Progress"], postcondition="Done", deadlock=False)
    vres, progress = tlc.validate_traces("Trace_CqlLex", tcfg, traces, ctx.scratch, timeout=900 if ctx.quick else 3000)
    if vres.violation or progress is None:
        raise tlc.MachineryError("trace validation run failed: %s\n%s" % (vres.error, vres.out[-2000:]))
    ctx.add_tlc(vres, "trace validation")
    ph.done("tlc_trace_validation")
    accepted = [progress[i] == len(traces[i]) + 1 for i in range(len(traces))]
    got = {k: accepted[n_real + i] for i, k in enumerate(st_names)}
    if got != {k: (k == "good") for k in st_names}:
        raise tlc.MachineryError("binding self-test failed: %r" % got)
    ctx.note("binding_selftest", {"corrupted_rejected": len(st_names) - 1, "good_accepted": 1})

    for i in range(n_real):
        kind, name, out = traces[i][0]["kind"], None, None
        for fn, kind, name, out in owners[i]:
            toks = cqllex.mirror_lex(out)
            mirror_ok = toks == [(kind, name)]
            if mirror_ok != accepted[i]:
                raise tlc.MachineryError("Python mirror and TLC disagree on %r (mirror %s, TLC %s)" % (out, mirror_ok, accepted[i]))
            if accepted[i]:
                ctx.traces_validated += 1
            else:
                failures.append((fn, kind, name, out, None, "rejected at character %d" % max(progress[i] - 2, 0)))
    # spec theorem cross-check used by the binding: an unquoted output equal to the name reads back iff BareOk
    report(ctx, failures)
    ph.done("verdicts")
    ctx.note("names", len(states))
    ctx.note("distinct_traces", n_real)
    ctx.assumptions += ["CQL lexing = Cassandra 3.0-4.x Lexer.g restricted to identifiers, string literals, whitespace, "
                        "keywords, BOOLEAN; reserved words = ReservedKeywords of Cassandra 4.0 (unreserved keywords may stay bare)",
                        "names and texts bounded by MaxLen over an alphabet with one representative per character class"]


def report(ctx, failures):
    by_sig = {}
    for fn, kind, name, out, err, why in failures:
        by_sig.setdefault(signature(fn, kind, name, out, err), []).append((fn, kind, name, out, err, why))
    for sig in sorted(by_sig):
        cases = sorted(by_sig[sig], key=lambda c: (len(c[2]), c[2], c[0]))
        fn, kind, name, out, err, why = cases[0]
        ctx.violation("%s  [%d cases with this signature, e.g. %s]" % (
            describe(fn, kind, name, out, err), len(cases), ", ".join(repr(c[2]) for c in cases[:6])),
            replay={"fn": fn, "kind": kind, "name": name, "output": out,
                    "more": [{"fn": c[0], "name": c[2], "output": c[3]} for c in cases[1:25]]},
            signature=sig)


def replay(ctx, r):
    funcs = real_functions()
    cases = [r] + list(r.get("more", []))
    bad = 0
    for c in cases:
        fn = c["fn"]
        kind = FUNCS[fn][1]
        out, err = call(funcs, fn, c["name"])
        toks = cqllex.mirror_lex(out) if out is not None else None
        ok = toks == [(kind, c["name"])]
        print("%s(%r) -> %r  lexes as %r  %s" % (fn, c["name"], out if err is None else err, toks, "ok" if ok else "DOES NOT READ BACK"))
        if not ok:
            bad += 1
    if bad:
        c = cases[0]
        out, err = call(funcs, c["fn"], c["name"])
        ctx.violation("replayed: %d of %d cases still do not read back" % (bad, len(cases)), replay=r,
                      signature=signature(c["fn"], FUNCS[c["fn"]][1], c["name"], out, err))
