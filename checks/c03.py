"""C03 - request frames conform to the native protocol specification.

Spec: spec/WireRequests.tla (+ spec/WirePrims.tla): reference encoder written from the protocol documents; per
      (message kind, protocol version, frame options, message options) the set of conforming frames, or "reject"
      where the version cannot carry what was requested.
TLC : enumerates the whole option lattice as states; invariants on the specification itself: header length =
      body length, a specification-level PARSER reads every frame back as exactly the requested fields (RoundTrip),
      what version n carries version n+1 carries (CarriesMonotone), every "reject" is justified.
Bind: every state is evaluated on the real code: the same message object is built and
      ProtocolHandler.encode_message must return one of the conforming frames (byte equality - this subsumes
      "header length equals body length" and "an independent parser reads back the requested fields", which TLC
      checked on the specification's frames) or raise exactly where the specification says "reject".
"""
import hashlib
import json
import os

from harness import tlc
from harness.replay import wire_bind as wb

META = {
    "property_id": "C03",
    "engine": "WireRequests",
    "technique": "TLA+ reference encoder of the native protocol request grammar; TLC enumerates the option lattice and "
                 "checks a spec-level parser round trip; every enumerated case is encoded by the real encode_message "
                 "and compared byte for byte",
    "level": "model_checking",
    "level_text": "TLC exhaustively enumerates message kind x protocol version (1-6, DSE_V1, DSE_V2) x the set/unset "
                  "lattice of every option the session layer can request (values incl. null/unset, page size, paging "
                  "state, serial consistency, timestamp, keyspace, continuous paging, custom payload, tracing, "
                  "compression, beta flag) with 2-3 element value alphabets, checks on the specification that a "
                  "separate parser reads every frame back as the requested fields and that header length = body "
                  "length, and every case is then encoded by the real driver and must be byte-identical to a conforming "
                  "frame, or be refused where the version cannot carry an option. Exhaustive over the enumerated "
                  "lattice; values outside the alphabets (wide numbers, long strings) are not covered.",
    "level_note": "Trusted: TLC; the transcription of native_protocol_v1-v5.spec into WireRequests.tla; v6 taken to be "
                  "v5; DSE_V1/DSE_V2 layouts transcribed from the driver's own documentation of them (weaker evidence "
                  "there); compression modelled as an opaque function installed as the compressor; map entries in any "
                  "order. Requests outside the session layer's lattice and not named by the property (timestamp on "
                  "v1/v2, unset values before v4, BATCH on v1, ...) are recorded, not judged; likewise whether the "
                  "Skip_metadata flag is sent for skip_meta=True (both forms accepted, the property does not name it).",
    "design_ref": "5.7 C03",
}

INVARIANTS = ["TypeOK", "LengthConsistent", "RoundTrip", "CarriesMonotone", "RejectJustified", "OpenIsOutOfScope",
              "SequencePayloadOK"]
ALL_KINDS = ["STARTUP", "OPTIONS", "AUTH_RESPONSE", "CREDENTIALS", "QUERY", "PREPARE", "EXECUTE", "BATCH", "REGISTER",
             "REVISE_REQUEST"]
SMALL_KINDS = ["STARTUP", "OPTIONS", "AUTH_RESPONSE", "CREDENTIALS", "PREPARE", "REGISTER", "REVISE_REQUEST"]


def runs(ctx):
    """(label, constants) per TLC run.  FullValues=False: set/unset lattice of every option, the alphabet element picked
    by the case's variant (2 variants); FullValues=True: every option ranges over unset + its whole alphabet."""
    big = {"QUERY", "EXECUTE", "BATCH"}
    if ctx.quick:
        return [("all kinds: set/unset lattice x variants 2 (second alphabet elements) and 3 (zero / empty edge values); frame options full (small kinds) / pairwise (QUERY, EXECUTE, BATCH)",
                 dict(Families=set(ALL_KINDS) | {"SESSION"}, FullValues=False, FullFrame=set(SMALL_KINDS), VarSet={2, 3}, Small=True))]
    return [
        ("all kinds: set/unset lattice x 3 variants (incl. zero / empty edge values); full frame-option lattice except EXECUTE, BATCH (pairwise); all value lists / batch shapes",
         dict(Families=set(ALL_KINDS) | {"SESSION"}, FullValues=False, FullFrame=set(ALL_KINDS) - {"EXECUTE", "BATCH"}, VarSet={1, 2, 3}, Small=False)),
        ("QUERY, PREPARE, BATCH: every option over unset + its whole alphabet, pairwise frame options",
         dict(Families={"QUERY", "PREPARE", "BATCH"}, FullValues=True, FullFrame=set(), VarSet={2}, Small=False)),
        ("EXECUTE: every option over unset + its whole alphabet, pairwise frame options",
         dict(Families={"EXECUTE"}, FullValues=True, FullFrame=set(), VarSet={2}, Small=True)),
    ]


JVM = {"JAVA_TOOL_OPTIONS": "-XX:TieredStopAtLevel=1 -XX:ParallelGCThreads=2 -Xms1g"}      # short runs: no C2 warm-up


def case_key(case):
    return hashlib.blake2b(json.dumps(case, sort_keys=True).encode(), digest_size=10).hexdigest()


def n_options(case):
    """how many optional things a case sets (smallest case of a group becomes its replay)"""
    n = sum(1 for v in case["o"].values() if isinstance(v, list) and len(v) == 1 and isinstance(v[0], (list, dict, int)))
    fo = case["fo"]
    return n + bool(fo["payload"]) + fo["tracing"] + fo["compress"] + fo["beta"] + (1 if case["o"].get("skip") else 0)


def nontrivial(st):
    c = st["c"]
    return st["expect"] != "frame" or n_options(c) > 0


def run_sequence(ctx, steps, groups, per_family):
    """one statement object executed len(steps) times through the real session layer; every frame against its own state"""
    statement = None
    done = []
    for st in steps:
        case = st["c"]
        try:
            if statement is None:
                statement = wb.make_statement(case["seq"], case)
            got = wb.session_frame(statement, st)
        except Exception as ex:                      # a broken driver must not crash the harness
            got = ("raised", type(ex).__name__)
        keys, got = wb.judge_request(st, got)
        done.append(st)
        fam = per_family.setdefault("session sequence (%s)" % case["seq"]["stmt"], {"frame": 0, "reject": 0, "open": 0})
        fam["frame"] += 1
        ctx.evaluations += 1
        ctx.traces_validated += 1
        ctx.nontrivial(case_key(case))
        if ctx.evaluations % 4001 == 1:
            ctx.sample({"sequence": case["seq"], "pv": case["pv"], "kind": case["kind"], "frames": sorted(st["alts"])[:1],
                        "real": got[1].hex() if got[0] == "frame" else got[1]})
        for k in keys or ():
            groups.setdefault(("sequence",) + tuple(k[1:]) if k[0] == "frame" else ("sequence",) + tuple(k), []).append((dict(st, sequence=list(done)), got))


def run(ctx):
    groups = {}            # group key -> list of (state, got)
    per_family = {}
    open_outcomes = {}
    seen = set()
    probes = []
    skipmeta = {"requested": 0, "flag_sent": 0}
    emptyps = {"requested": 0, "written": 0}
    for label, consts in runs(ctx):
        cfg = tlc.write_cfg(os.path.join(ctx.scratch, "WireRequests_%d.cfg" % len(ctx.extra.get("tlc_runs", []))),
                            constants=consts, invariants=INVARIANTS, deadlock=False)
        res, states = wb.enumerate_fast(tlc, "WireRequests", cfg, ctx.scratch, timeout=600 if ctx.quick else 3000, env=JVM)
        ctx.add_tlc(res, label)
        if res.violation:
            ctx.violation("TLC: invariant %s violated in WireRequests.tla (the reference encoder itself is inconsistent)"
                          % res.invariant, replay={"trace": [s for _, s in res.trace()]}, signature="spec:" + str(res.invariant))
            return
        if not any(s["expect"] != "seed" for s in states):
            raise tlc.MachineryError("vacuity: action Next never taken in run %s" % label)
        sequences = {}
        for st in states:
            if st["expect"] != "seed" and "seq" in st["c"]:
                q = st["c"]["seq"]
                sequences.setdefault((st["c"]["pv"], q["stmt"], q["own"], tuple(q["calls"])), []).append(st)
        for skey in sorted(sequences):
            run_sequence(ctx, sorted(sequences[skey], key=lambda s: s["c"]["seq"]["pos"]), groups, per_family)
        for st in states:
            if st["expect"] == "seed" or "seq" in st["c"]:
                continue
            case = st["c"]
            key = case_key(case)
            if key in seen:                       # the same case can be enumerated by two runs
                continue
            seen.add(key)
            fam = per_family.setdefault(case["kind"], {"frame": 0, "reject": 0, "open": 0})
            fam[st["expect"]] += 1
            keys, got = wb.judge_request(st)
            ctx.evaluations += 1
            if st["expect"] == "open":
                oc = open_outcomes.setdefault("%s:%s" % (case["kind"], "+".join(sorted(n for n, _ in st["reasons"]))), {})
                tag = "encoded" if got[0] == "frame" else "raised:" + got[1]
                oc[tag] = oc.get(tag, 0) + 1
            else:
                ctx.traces_validated += 1
            if st["expect"] == "frame" and case["o"].get("skip") and got[0] == "frame":
                skipmeta["requested"] += 1
                skipmeta["flag_sent"] += 1 if wb.param_flags(case, got[1], st["layout"]) & 0x02 else 0
            if st["expect"] == "frame" and case["o"].get("pstate") == [[]] and got[0] == "frame":
                emptyps["requested"] += 1
                emptyps["written"] += 1 if wb.param_flags(case, got[1], st["layout"]) & 0x08 else 0
            if nontrivial(st):
                ctx.nontrivial(key)
            if ctx.evaluations % 4001 == 1:
                ctx.sample({"kind": case["kind"], "pv": case["pv"], "frame_options": case["fo"], "options": case["o"],
                            "expect": st["expect"], "frames": sorted(st["alts"])[:1],
                            "real": got[1].hex() if got[0] == "frame" else got[1]})
            if len(probes) < 2 and st["expect"] == "frame" and keys is None and case["kind"] in ("QUERY", "PREPARE") and case["pv"] >= 2:
                probes.append(st)
            if keys:
                for k in keys:
                    groups.setdefault(k, []).append((st, got))

    ctx.note("exhaustive", True)
    ctx.note("cases_per_family", per_family)
    ctx.note("outside_session_lattice_outcomes", open_outcomes)
    ctx.note("skip_metadata_recorded_not_judged", skipmeta)
    ctx.note("zero_length_paging_state_recorded_not_judged", emptyps)
    ctx.note("rule", "one case = one TLC state (kind, pv, frame options, message options); distinct by the whole case; "
                     "non-trivial = at least one optional field / frame option set, or the expectation is a refusal")

    # vacuity: every expectation class and every family reached; TLC witness(es)
    for fam, cnt in per_family.items():
        if cnt["frame"] == 0:
            raise tlc.MachineryError("vacuity: no conforming-frame case for %s" % fam)
    if not any(c["reject"] for c in per_family.values()) or not any(c["open"] for c in per_family.values()):
        raise tlc.MachineryError("vacuity: reject / open expectation never enumerated")
    witnesses = ["Witness_Reject"] if ctx.quick else ["Witness_Reject", "Witness_Open", "Witness_Alternatives", "Witness_IntFlags",
                                                      "Witness_Sequence"]
    wconst = dict(Families={"PREPARE", "STARTUP", "BATCH", "SESSION"}, FullValues=False, FullFrame=set(), VarSet={1}, Small=True)
    for w in witnesses:
        wcfg = tlc.write_cfg(os.path.join(ctx.scratch, w + ".cfg"), constants=wconst, invariants=[w], deadlock=False)
        wres = tlc.check_model("WireRequests", wcfg, ctx.scratch, timeout=600, env=JVM)
        if wres.invariant != w:
            raise tlc.MachineryError("vacuity witness %s was not reached" % w)
    ctx.note("vacuity_witnesses_reached", len(witnesses))

    # binding self-test: a corrupted expectation / a flipped expectation must be noticed
    rejected = 0
    for st in probes:
        bad = dict(st)
        alt = sorted(st["alts"])[0]
        bad["alts"] = [alt[:-1] + [(alt[-1] + 1) % 256]]
        k1, _ = wb.judge_request(bad)
        flipped = dict(st)
        flipped["expect"] = "reject"
        flipped["reasons"] = [["keyspace", True]]
        k2, _ = wb.judge_request(flipped)
        if not k1 or not k2:
            raise tlc.MachineryError("binding self-test failed: corrupted expectation not detected")
        rejected += 2
    if rejected < 2:
        raise tlc.MachineryError("binding self-test could not run (no probe state)")
    ctx.note("binding_selftest", {"corrupted_rejected": rejected})

    # one violation per distinct deviation: (class, scope, detail) over the set of versions it shows on
    for gkey in sorted(groups, key=lambda g: (-len(groups[g]), g)):      # the deviation with most cases first
        members = groups[gkey]
        pvs = sorted({st["c"]["pv"] for st, _ in members})
        st, got = min(members, key=lambda m: (m[0]["c"].get("seq", {}).get("pos", 0), n_options(m[0]["c"]), m[0]["c"]["pv"],
                                              case_key(m[0]["c"])))
        sig = ":".join(gkey) + "@" + wb.pv_set(pvs)
        case = st["c"]
        if gkey[0] == "sequence":
            q = case["seq"]
            what = ("step %d of a sequence of executions of ONE %s statement through Session._create_response_future deviates at %s "
                    "on %s: the frame must carry the statement's own payload %s merged with THIS call's %s only (earlier calls "
                    "passed payload choices %s); %d cases, smallest: %s pv=%s real=%s conforming=%s"
                    % (q["pos"], q["stmt"], ":".join(gkey[1:]), wb.pv_set(pvs), q["ownp"], q["callp"], q["calls"][:q["pos"] - 1],
                       len(members), case["kind"], case["pv"], got[1].hex() if got[0] == "frame" else "raised " + got[1],
                       [bytes(a).hex() for a in sorted(st["alts"])][:1]))
        elif gkey[0] == "frame":
            what = ("%s frames deviate from the protocol layout at %s (%s) on %s; %d cases, smallest: %s pv=%s options=%s "
                    "frame_options=%s: real=%s conforming=%s"
                    % (case["kind"], gkey[1], gkey[2], wb.pv_set(pvs), len(members), case["kind"], case["pv"],
                       case["o"], case["fo"], got[1].hex(), [bytes(a).hex() for a in sorted(st["alts"])][:2]))
        elif gkey[0] == "not-rejected":
            what = ("%s with %s requested on %s (which cannot carry it) is encoded instead of refused - the option is "
                    "silently dropped; %d cases, smallest: pv=%s options=%s: real=%s"
                    % (gkey[1], gkey[2], wb.pv_set(pvs), len(members), case["pv"], case["o"], got[1].hex()))
        else:
            what = ("%s: encode_message raised %s for a request the version can carry, on %s; %d cases, smallest: pv=%s "
                    "options=%s frame_options=%s" % (gkey[1], gkey[2], wb.pv_set(pvs), len(members), case["pv"],
                                                     case["o"], case["fo"]))
        ctx.violation(what, replay={"state": st, "cases": len(members), "versions": pvs}, signature=sig)
    wb.close_sessions()
    ctx.assumptions += ["session-layer sequences: consistency ONE, fetch size 5000, client timestamps off; run over the simulation substrate",
                        "v6 = v5 layout (no separate document)",
                        "DSE_V1/DSE_V2 layouts as documented by the driver itself",
                        "map entries (STARTUP options, credentials, custom payload) may be written in any order",
                        "value alphabets of 2-3 elements per field; numbers below 2^31 or given as 16-bit limbs"]


def replay(ctx, obj):
    st = obj["state"]
    if "sequence" in st:                                 # re-run the whole sequence on one fresh statement object
        statement, keys, got = None, None, None
        for step in st["sequence"]:
            if statement is None:
                statement = wb.make_statement(step["c"]["seq"], step["c"])
            keys, got = wb.judge_request(step, wb.session_frame(statement, step))
            print("step %s: own=%s this call=%s -> %s" % (step["c"]["seq"]["pos"], step["c"]["seq"]["ownp"], step["c"]["seq"]["callp"],
                                                         "as specified" if not keys else "DEVIATES %s" % (keys,)))
    else:
        keys, got = wb.judge_request(st)
    print("case: kind=%s pv=%s options=%s frame_options=%s" % (st["c"]["kind"], st["c"]["pv"], st["c"]["o"], st["c"]["fo"]))
    print("expect=%s conforming=%s" % (st["expect"], [bytes(a).hex() for a in sorted(st["alts"])]))
    print("real  =%s" % (got[1].hex() if got[0] == "frame" else "raised " + got[1]))
    if keys:
        ctx.violation("replayed: still deviates: %s" % (keys,), replay=obj)
