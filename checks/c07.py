"""C07 - the compiled extensions behave exactly like the pure-Python driver (on the explored set; bounded scope).

Spec: spec/Codec.tla (the same reference codec as C01 / C02).
TLC : enumerates the C01/C02 vectors (type trees x boundary values x protocol versions, null / empty cells).
Bind: the package of the CURRENT working tree is copied to scratch, its Cython sources (deserializers, obj_parser,
      row_parser, parsing, bytesio, cython_utils - which include cython_marshal.pyx / ioutils.pyx and cimport buffer, tuple,
      type_codes), the Cython builds of cqltypes / protocol / util, and cmurmur3.c are compiled with the installed Cython
      and gcc exactly as setup.py does (cythonize + build_ext --inplace; nothing is fetched).  The build is cached under
      /verif/.cache/c07/<hash of the package sources>/ and reused while the sources do not change.  In a SUBPROCESS that
      imports the driver from that build (HAVE_CYTHON, CythonProtocolHandler and every extension module verified to be
      the compiled one) every vector is run through the compiled cqltypes (to_binary / from_binary) and - as cells of
      ROWS bodies assembled with harness/wire.py - through the compiled row parsers and Des*Type deserializers
      (ProtocolHandler with ListParser and LazyProtocolHandler with LazyParser: decode_message -> parsed_rows).  The same
      vectors run in-process through the pure-Python sources.  Both are compared with the SAME TLA+ expectation; a case
      on which the two builds give different results is a violation (both equal to the specification => equal to each
      other on the explored set).
Murmur3 clause: spec/Tokens.tla (C08's reference definition of Cassandra's MurmurHash3_x64_128 variant and of the
      Murmur3Partitioner token) is enumerated by TLC on a small key set - every tail size with 0..MaxBlocks full blocks, a
      byte with the sign bit set at every tail position and at block positions, the published vectors - and the compiled
      cassandra.cmurmur3 of the same build (checks/_tokens.run_compiled, the machinery of C08's thorough tier) and the
      pure-Python cassandra.murmur3 are both compared with the specification's value; a key on which they differ is a
      violation.  C08 holds the large key set.
Not decided here: numpy_parser (numpy is not installed); types outside Codec.tla's alphabet; keys outside the small
      murmur3 set (see C08).
"""
import fcntl
import hashlib
import json
import os
import shutil
import subprocess
import sys
import time

from harness import tlc
from harness.replay import codec
from checks.c02 import SCOPE

META = {
    "property_id": "C07",
    "engine": "Codec",
    "technique": "TLA+ reference codec; TLC enumerates value / result-cell vectors; each vector is decoded by the "
                 "Cython-compiled build of the current tree (row parsers, Des*Type deserializers, compiled cqltypes) and by "
                 "the pure-Python sources, both against the same specification expectation",
    "level": "model_checking",
    "level_text": "TLC exhaustively enumerates the configured type trees x boundary alphabets x protocol versions (the "
                  "C01/C02 vectors, plus null and empty cells); the compiled build of the current working tree and the "
                  "pure-Python sources both process every vector (value codecs, and ROWS bodies through ListParser and "
                  "LazyParser) and are compared with the same TLA+ expectation; any case on which the two builds differ "
                  "is reported. Exhaustive over the enumerated space.",
    "level_note": SCOPE + " The murmur3 clause is decided on a small enumerated key set only (Tokens.tla: every tail size "
                  "with 0-1 (thorough 0-2) full blocks, a negative byte at every tail position, the published vectors; "
                  "thorough adds the sign-subset lattice of tails up to 8 bytes); C08 covers the larger set. Trusted: TLC; Codec.tla; the build recipe mirrors setup.py (cythonize + "
                  "build_ext, default flags) for bytesio, cython_utils, deserializers, obj_parser, parsing, row_parser, "
                  "cqltypes, protocol, util, cmurmur3 - cluster/connection/... (no decoding) and numpy_parser (no numpy) "
                  "are not built; result bodies are limited to ROWS with two columns of one type (metadata variants are "
                  "C04's subject and are parsed by code shared by both builds).",
    "design_ref": "5.7 C07",
}

CACHE_ROOT = os.environ.get("VERIF_C07_CACHE") or os.path.join(tlc.VERIF, ".cache", "c07")
PYX = ["bytesio", "cython_utils", "deserializers", "obj_parser", "parsing", "row_parser"]
PY = ["cqltypes", "protocol", "util"]
SRC_EXT = (".py", ".pyx", ".pxd", ".c", ".h")
KEEP_ENTRIES = 2

BUILD_SCRIPT = '''"""Restricted equivalent of setup.py build_ext for the modules C07 compares (the same cythonize calls and flags)."""
import os
from setuptools import setup, Extension
from Cython.Build import cythonize
PYX = os.environ["C07_PYX"].split(",")
PY = os.environ["C07_PY"].split(",")
N = int(os.environ.get("C07_JOBS", "8"))
args = ['-Wno-unused-function']
exts = [Extension('cassandra.cmurmur3', sources=['cassandra/cmurmur3.c'])]
exts += cythonize([Extension('cassandra.%s' % m, ['cassandra/%s.py' % m], extra_compile_args=args) for m in PY], nthreads=N)
exts += cythonize([Extension('cassandra.%s' % m, ['cassandra/%s.pyx' % m], extra_compile_args=args) for m in PYX], nthreads=N)
setup(name='c07build', ext_modules=exts, script_args=['build_ext', '--inplace', '-j', str(N)])
'''


def source_files(pkg):
    out = []
    for root, dirs, files in os.walk(pkg):
        dirs[:] = sorted(d for d in dirs if d != "__pycache__")
        for f in sorted(files):
            if f.endswith(SRC_EXT):
                out.append(os.path.relpath(os.path.join(root, f), pkg))
    return out


def source_hash(pkg):
    import Cython
    h = hashlib.sha256()
    h.update(("%s|%s|%s" % (sys.version, Cython.__version__, BUILD_SCRIPT)).encode())
    for rel in source_files(pkg):
        p = os.path.join(pkg, rel)
        if rel.endswith(".c") and os.path.exists(p[:-2] + ".pyx") or rel.endswith(".c") and os.path.exists(p[:-2] + ".py"):
            continue                                   # a generated file left in the tree
        with open(p, "rb") as f:
            h.update(rel.encode() + b"\0" + f.read() + b"\0")
    return h.hexdigest()[:20]


def _entries():
    if not os.path.isdir(CACHE_ROOT):
        return []
    out = []
    for d in os.listdir(CACHE_ROOT):
        ok = os.path.join(CACHE_ROOT, d, "OK")
        if os.path.exists(ok):
            out.append((os.path.getmtime(ok), d))
    return [d for _, d in sorted(out, reverse=True)]


def _sync_sources(pkg, dst_pkg):
    """make dst_pkg's sources equal to pkg's, touching only files whose content differs (mtimes of the rest are kept, so
    that cythonize / build_ext rebuild only what changed)"""
    want = set(source_files(pkg))
    for rel in source_files(dst_pkg):
        p = os.path.join(dst_pkg, rel)
        generated = rel.endswith(".c") and (os.path.exists(p[:-2] + ".pyx") or os.path.exists(p[:-2] + ".py"))
        if rel not in want and not generated:
            os.unlink(p)
    for rel in want:
        src, dst = os.path.join(pkg, rel), os.path.join(dst_pkg, rel)
        if os.path.exists(dst):
            with open(src, "rb") as a, open(dst, "rb") as b:
                if a.read() == b.read():
                    continue
        os.makedirs(os.path.dirname(dst), exist_ok=True)
        shutil.copyfile(src, dst)


def build_compiled(ctx):
    """-> (directory holding the compiled copy of the package, info dict)"""
    from harness import pyenv
    pkg = os.path.join(pyenv.REPO, "cassandra")
    digest = source_hash(pkg)
    os.makedirs(CACHE_ROOT, exist_ok=True)
    info = {"source_hash": digest, "package": pkg}
    with open(os.path.join(CACHE_ROOT, ".lock"), "w") as lock:
        fcntl.flock(lock, fcntl.LOCK_EX)
        entry = os.path.join(CACHE_ROOT, digest)
        if os.path.exists(os.path.join(entry, "OK")):
            os.utime(os.path.join(entry, "OK"))
            with open(os.path.join(entry, "OK")) as f:
                info.update(json.load(f))
            info["cache"] = "hit"
            return entry, info
        work = os.path.join(ctx.scratch, "c07build")
        previous = _entries()
        if previous:                                   # incremental: start from the newest entry, sync the sources
            shutil.copytree(os.path.join(CACHE_ROOT, previous[0]), work, symlinks=True, copy_function=shutil.copy2)
            os.unlink(os.path.join(work, "OK"))
            _sync_sources(pkg, os.path.join(work, "cassandra"))
            info["cache"] = "miss (incremental from %s)" % previous[0]
        else:
            os.makedirs(work)
            shutil.copytree(pkg, os.path.join(work, "cassandra"), ignore=shutil.ignore_patterns("__pycache__", "*.so", "*.pyc"))
            info["cache"] = "miss (cold)"
        with open(os.path.join(work, "_build.py"), "w") as f:
            f.write(BUILD_SCRIPT)
        env = dict(os.environ, C07_PYX=",".join(PYX), C07_PY=",".join(PY), C07_JOBS="8")
        env.pop("CASS_DRIVER_NO_EXTENSIONS", None)
        t0 = time.time()
        try:
            p = subprocess.run([sys.executable, "_build.py"], cwd=work, env=env, stdout=subprocess.PIPE,
                               stderr=subprocess.STDOUT, timeout=3000, text=True, errors="replace")
        except subprocess.TimeoutExpired:
            raise tlc.MachineryError("building the compiled extensions timed out")
        with open(os.path.join(work, "build.log"), "w") as f:
            f.write(p.stdout)
        built = sorted(f for f in os.listdir(os.path.join(work, "cassandra")) if f.endswith(".so"))
        missing = [m for m in PYX + PY + ["cmurmur3"] if not any(b.startswith(m + ".") for b in built)]
        if p.returncode != 0 or missing:
            raise tlc.MachineryError("building the compiled extensions failed (rc=%s, missing=%s):\n%s"
                                     % (p.returncode, missing, p.stdout[-3000:]))
        meta = {"build_s": round(time.time() - t0, 1), "extension_modules": built}
        with open(os.path.join(work, "OK"), "w") as f:
            json.dump(meta, f)
        tmp = entry + ".tmp%d" % os.getpid()
        shutil.rmtree(tmp, ignore_errors=True)
        shutil.copytree(work, tmp, symlinks=True, copy_function=shutil.copy2)
        shutil.rmtree(entry, ignore_errors=True)
        os.rename(tmp, entry)
        shutil.rmtree(work, ignore_errors=True)
        for old in _entries()[KEEP_ENTRIES:]:           # evict older entries
            shutil.rmtree(os.path.join(CACHE_ROOT, old), ignore_errors=True)
        for d in os.listdir(CACHE_ROOT):
            if ".tmp" in d:
                shutil.rmtree(os.path.join(CACHE_ROOT, d), ignore_errors=True)
        info.update(meta)
        return entry, info


def run_compiled(ctx, build_dir, states):
    sp = os.path.join(ctx.scratch, "c07_states.json")
    op = os.path.join(ctx.scratch, "c07_out.json")
    with open(sp, "w") as f:
        json.dump(states, f)
    code = "import sys; sys.path.insert(0, %r); from harness.replay import codec; codec.worker_main(sys.argv[1:])" % tlc.VERIF
    env = dict(os.environ, PYTHONHASHSEED="0", PYTHONDONTWRITEBYTECODE="1")
    env.pop("CASS_DRIVER_NO_EXTENSIONS", None)
    try:
        p = subprocess.run([sys.executable, "-c", code, build_dir, sp, op], cwd=ctx.scratch, env=env,
                           stdout=subprocess.PIPE, stderr=subprocess.STDOUT, timeout=3000, text=True, errors="replace")
    except subprocess.TimeoutExpired:
        raise tlc.MachineryError("the compiled-build subprocess timed out")
    if p.returncode != 0 or not os.path.exists(op):
        raise tlc.MachineryError("the compiled-build subprocess failed (rc=%s):\n%s" % (p.returncode, p.stdout[-3000:]))
    with open(op) as f:
        return json.load(f)


def run_pure(states):
    from harness.pyenv import repo_import
    proto = repo_import("cassandra.protocol")
    if repo_import("cassandra.cython_deps").HAVE_CYTHON or proto.ProtocolHandler is not proto._ProtocolHandler:
        raise tlc.MachineryError("the in-process driver is not the pure-Python one")
    return codec.run_vectors(codec.Driver.pure(), proto, ("ProtocolHandler",), states)


def compare(pure, compiled):
    """-> list of (signature, compiled record | None, pure record | None) for every vector on which the builds differ"""
    out = []
    pd, cd = pure["devs"], compiled["devs"]

    def pure_key(k):
        parts = k.split("|")
        if parts[0] == "rows":
            parts[1] = "ProtocolHandler"
        return "|".join(parts)
    for k, rec in cd.items():
        prec = pd.get(pure_key(k))
        if prec is None or prec["real"] != rec["real"]:
            out.append((k, rec, prec))
    seen = {pure_key(k) for k in cd}
    for k, prec in pd.items():
        if k in seen:
            continue
        handlers = ["ProtocolHandler", "LazyProtocolHandler"] if k.startswith("rows|") else [None]
        for h in handlers:
            ck = k if h is None else "|".join(["rows", h] + k.split("|")[2:])
            if ck not in cd:
                out.append((ck, None, prec))
    return out


def signature(key, crec, prec, by_id):
    """one signature per distinct kind of difference: where (row parsers / cqltypes), which structural class of vector,
    how each build behaves relative to the specification"""
    rec = crec or prec
    area = "rows" if key.startswith("rows|") else "cqltypes"
    st = by_id.get(key.split("|")[2 if area == "rows" else 1])
    if st is not None and st["expect"] == "ok" and "null-collection-element" in codec.features(st["ty"], st["val"]):
        category = "collection-null-element"
    elif st is not None and st["expect"] in ("null", "empty"):
        category = "%s-cell" % st["expect"]
    elif st is not None:
        category = st["ty"][0]
    else:
        category = rec["sig"]
    return "differs:%s:%s:compiled=%s:pure=%s" % (area, category, _cls(crec), _cls(prec))


def _cls(rec):
    if rec is None:
        return "spec"
    r = rec["real"]
    if isinstance(r, str) and r.startswith("raised "):
        return "raises-" + r.split()[1].rstrip(":")
    return "other"


def murmur3_constants(quick):
    if quick:
        return {"Families": {"anchor", "onehot"}, "MaxBlocks": 1, "OneHotBlocks": False, "SignsBlocks": {0},
                "SignsMaxTail": 1, "SignPairIds": {1}, "LcgSeeds": {1}}
    return {"Families": {"anchor", "onehot", "const", "signs"}, "MaxBlocks": 2, "OneHotBlocks": False, "SignsBlocks": {0, 1},
            "SignsMaxTail": 8, "SignPairIds": {1, 2}, "LcgSeeds": {1}}


def run_murmur3(ctx, build_dir):
    """the murmur3 clause: compiled cmurmur3 of the build and pure-Python murmur3, both against Tokens.tla.
    -> number of violation groups reported"""
    from checks import _tokens
    from harness.replay import tokens
    consts = murmur3_constants(ctx.quick)
    res, states, cases = _tokens.enumerate_done("c07m3", consts, ctx)
    ctx.add_tlc(res, "murmur3 keys (Tokens.tla)")
    if res.violation:
        ctx.violation("TLC: invariant %s violated in Tokens.tla" % res.invariant, replay={"trace": [s for _, s in res.trace()]},
                      signature="spec:Tokens:" + str(res.invariant))
        return 1
    states = [s for s in states if s["fam"] == "m3"]
    if len(states) != cases or not states:
        raise tlc.MachineryError("murmur3: %d initial states but %d computed states" % (cases, len(states)))
    negpos, tails = {}, {}
    for st in states:
        try:
            tokens.check_facts(st)
        except ValueError as ex:
            raise tlc.MachineryError(str(ex))
        f = tokens.features(st)
        tails.setdefault(f["blocks"], set()).add(f["tail"])
        negpos.setdefault(f["blocks"], set()).update(f["neg_tail"])
    for nb in range(consts["MaxBlocks"] + 1):
        if negpos.get(nb, set()) != set(range(15)) or not set(range(1, 16)) <= tails.get(nb, set()):
            raise tlc.MachineryError("vacuity: murmur3 keys with %d blocks: negative byte only at tail positions %s, tail sizes %s"
                                     % (nb, sorted(negpos.get(nb, ())), sorted(tails.get(nb, ()))))
    pure = tokens.run_states(tokens.Impl.pure(), states)
    comp = _tokens.run_compiled(ctx, build_dir, states)

    def table(out):
        t = {}
        for d in out["devs"]:
            what = "murmur3" if d["what"].endswith("murmur3") else d["what"]
            t[(d["i"], what)] = d
        return t
    pt, ct = table(pure), table(comp)
    # self-test of the subprocess path: a corrupted expectation must come back as a deviation
    probe = next(s for s in states if tokens.features(s)["neg_tail"])
    bad = dict(probe, res=dict(probe["res"], h=dict(probe["res"]["h"], neg=not probe["res"]["h"]["neg"])))
    def verdict(st):          # judged as "the verdict changes": also right when the build under test is itself broken
        return sorted((d["what"], d["got"], str(d["expected"])) for d in _tokens.run_compiled(ctx, build_dir, [st])["devs"])
    if verdict(bad) == verdict(probe):
        raise tlc.MachineryError("binding self-test failed: the compiled cmurmur3 subprocess did not notice a corrupted expectation")
    ctx.evaluations += pure["evaluations"] + comp["evaluations"]
    ctx.traces_validated += len(states)
    for st in states:
        f = tokens.features(st)
        if f["neg_tail"] or f["blocks"]:
            ctx.nontrivial(("m3", bytes(st["key"]).hex()))
    ctx.sample(tokens.describe(probe))
    ctx.note("murmur3", {"keys": len(states), "constants": {k: (sorted(v) if isinstance(v, (set, frozenset)) else v) for k, v in consts.items()},
                         "evaluations_compiled": comp["evaluations"], "evaluations_pure": pure["evaluations"],
                         "deviations_from_spec_compiled": len(ct), "deviations_from_spec_pure": len(pt), "compiled_info": comp["info"],
                         "negative_byte_at_tail_positions": {str(k): sorted(v) for k, v in negpos.items()}})
    groups = {}
    for key in sorted(set(pt) | set(ct), key=str):
        c, p_ = ct.get(key), pt.get(key)
        if (c or {}).get("got") == (p_ or {}).get("got"):
            continue
        st = states[key[0]]
        sig = "differs:murmur3:%s:compiled=%s:pure=%s" % (tokens.failure_class(st), "other" if c else "spec", "other" if p_ else "spec")
        groups.setdefault(sig, []).append((key, c, p_))
    for sig in sorted(groups):
        members = groups[sig]
        key, c, p_ = min(members, key=lambda m: (len(states[m[0][0]]["key"]), m[0][0], m[0][1]))
        st = states[key[0]]
        ctx.violation("the compiled cmurmur3 and the pure-Python murmur3 differ on %d enumerated keys (%s); smallest: %s %s: "
                      "compiled -> %s, pure -> %s, specification -> %s"
                      % (len({m[0][0] for m in members}), tokens.failure_class(st), key[1], tokens.describe(st),
                         c["got"] if c else "as specified", p_["got"] if p_ else "as specified", (c or p_)["expected"]),
                      replay={"murmur3": True, "state": st, "what": key[1], "compiled": c, "pure": p_,
                              "cases": len({m[0][0] for m in members})}, signature=sig)
    return len(groups)


def run(ctx):
    runs = codec.enumerate_cases(ctx, tlc)
    if runs is None:
        return
    states = [st for _, sts in runs for st in sts]
    build_dir, binfo = build_compiled(ctx)
    ctx.note("build", binfo)
    t0 = time.time()
    compiled = run_compiled(ctx, build_dir, states)
    ctx.note("compiled_run_s", round(time.time() - t0, 1))
    ctx.note("compiled_build_info", compiled["info"])
    pure = run_pure(states)
    if compiled["cases"] != len(states) or pure["cases"] != len(states) or compiled["cells"] != 2 * pure["cells"]:
        if not (compiled["devs"] or pure["devs"]):
            raise tlc.MachineryError("the two builds did not process the same vectors: %s vs %s" % (
                {k: compiled[k] for k in ("cases", "rows", "cells")}, {k: pure[k] for k in ("cases", "rows", "cells")}))
    ctx.evaluations = compiled["cases"] + compiled["cells"]
    ctx.traces_validated = len(states)
    for st in states:
        if codec.nontrivial(st):
            ctx.nontrivial(codec.case_id(st))
    for st in states[::max(1, len(states) // 4)][:4]:
        ctx.sample(codec.describe(st))
    fam, feats = codec.census(states)
    ctx.note("exhaustive", True)
    ctx.note("cases_per_family", fam)
    ctx.note("structural_features", feats)
    ctx.note("vectors", {"value_cases": len(states), "rows_decoded_compiled": compiled["rows"], "cells_decoded_compiled": compiled["cells"],
                         "rows_decoded_pure": pure["rows"], "cells_decoded_pure": pure["cells"],
                         "deviations_from_spec_compiled": len(compiled["devs"]), "deviations_from_spec_pure": len(pure["devs"])})
    ctx.note("rule", "one case = one TLC state (type tree, protocol version, value | out-of-range number | null/empty cell); "
                     "each is run through the compiled and the pure cqltypes and, as ROWS cells, through ListParser, LazyParser "
                     "and the pure row decoder; non-trivial as in C02")
    for need in ("null-field", "null-collection-element", "empty-collection", "aware-timestamp", "v2-unsigned-short-above-32767", "inet-mixed-text", "inet-canonical-text-with-dotted-quad", "wide-integer-64bit-and-beyond", "decimal-scale-int32-limit", "short-udt-encodings", "v2-16bit-collection", "depth-3"):
        if not feats.get(need):
            raise tlc.MachineryError("vacuity: no case with feature %s" % need)
    if not any(f["null"] for f in fam.values()) or not any(f["empty"] for f in fam.values()):
        raise tlc.MachineryError("vacuity: no null / empty cell")
    codec.check_witnesses(ctx, tlc)

    # binding self-test: a corrupted expectation must change the judgement of BOTH builds; the comparison must report a
    # one-sided deviation and nothing for identical results (independent of how the driver under test behaves)
    probe = next(s for s in states if s["expect"] == "ok" and s["ty"] == ["list", ["int"]] and len(s["val"]) == 2 and all(s["val"]))
    bad = dict(probe)
    bad["norm"] = list(reversed(probe["norm"])) if probe["norm"][0] != probe["norm"][1] else probe["norm"][:1]
    if run_pure([probe])["devs"] == run_pure([bad])["devs"] or \
            run_compiled(ctx, build_dir, [probe])["devs"] == run_compiled(ctx, build_dir, [bad])["devs"]:
        raise tlc.MachineryError("binding self-test failed: corrupted expectation not seen by both builds")
    one_sided = {"devs": dict(pure["devs"]), "cases": pure["cases"], "rows": pure["rows"], "cells": pure["cells"]}
    one_sided["devs"]["types|selftest|decode|"] = {"sig": "types:decode:list", "real": "x", "spec": "y", "type": "list<int>",
                                                   "pv": 4, "value": [], "cell": ""}
    if compare(pure, {"devs": {k.replace("|ProtocolHandler|", "|LazyProtocolHandler|"): v for k, v in pure["devs"].items()}}) \
            or len(compare(one_sided, {"devs": {}})) != len(one_sided["devs"]) + sum(1 for k in one_sided["devs"] if k.startswith("rows|")):
        raise tlc.MachineryError("binding self-test failed: the comparison of the two builds does not report what it should")
    ctx.note("binding_selftest", {"corrupted_rejected": 2})

    run_murmur3(ctx, build_dir)

    groups = {}
    by_id = {codec.case_id(s): s for s in states}
    for key, crec, prec in compare(pure, compiled):
        groups.setdefault(signature(key, crec, prec, by_id), []).append((key, crec, prec))
    for sig in sorted(groups):
        members = groups[sig]
        key, crec, prec = min(members, key=lambda m: (len((m[1] or m[2])["cell"]), (m[1] or m[2])["type"], m[0]))
        rec = crec or prec
        ctx.violation("compiled and pure-Python builds differ on %d vectors (%s); smallest: %s pv=%s cell/bytes=%s: "
                      "compiled -> %s, pure -> %s, specification -> %s"
                      % (len(members), key.split("|")[1] if key.startswith("rows|") else "cqltypes", rec["type"], rec["pv"],
                         rec["cell"], crec["real"] if crec else "as specified", prec["real"] if prec else "as specified",
                         rec["spec"]),
                      replay={"key": key, "compiled": crec, "pure": prec, "cases": len(members),
                              "state": by_id.get(key.split("|")[2 if key.startswith("rows|") else 1])},
                      signature=sig)
    ctx.assumptions += [SCOPE, "murmur3 C extension vs pure Python: decided on the small enumerated key set of this check only (C08: the large one)",
                        "the compiled build is the one setup.py would produce for these modules with the installed Cython / gcc"]


def replay(ctx, obj):
    st = obj.get("state")
    if st is None:
        print("no state recorded")
        return
    if obj.get("murmur3"):
        from checks import _tokens
        from harness.replay import tokens
        build_dir, binfo = build_compiled(ctx)
        print("case: %s" % tokens.describe(st))
        c = _tokens.run_compiled(ctx, build_dir, [st])["devs"]
        p = tokens.run_states(tokens.Impl.pure(), [st])["devs"]
        for d in c + p:
            print("  %s [%s]: specification %s, code %s" % (d["what"], d["impl"], d["expected"], d["got"]))
        if sorted(d["got"] for d in c) != sorted(d["got"] for d in p):
            ctx.violation("replayed: the builds still differ", replay=obj)
        else:
            print("  no difference")
        return
    build_dir, binfo = build_compiled(ctx)
    print("case: %s" % codec.describe(st))
    c = run_compiled(ctx, build_dir, [st])
    p = run_pure([st])
    diffs = compare(p, c)
    for key, crec, prec in diffs:
        print("  %s: compiled -> %s ; pure -> %s" % (key.split("|")[1], crec["real"] if crec else "as specified",
                                                      prec["real"] if prec else "as specified"))
    if diffs:
        ctx.violation("replayed: the builds still differ", replay=obj)
    else:
        print("  no difference")
