"""C38 - cqlengine routing keys equal the partition key Cassandra hashes (spec/Bind.tla, MapperInit).

Spec : Bind.tla KeyBytes: the single component's encoding, or for a composite key the concatenation over the
       components, in partition key order, of (2-byte big-endian length ++ bytes ++ 0x00) - the same definition C30's
       routing keys are checked against; TLC also proves that an independent reader of the composite layout
       (SplitComposite) gets the components back.
TLC  : enumerates models with 1..MMaxPk partition key columns over the type alphabet MTypes x two or three values per type
       (always an ordinary one and the one that is present but falsy in Python: 0, False, '', b'')
       x the mapper operations MOps x the application history MOrders (which models were defined and used first:
       those keyed by the base column classes Integer / Text, or those keyed by their subclasses).
Bind : for every case a real cqlengine Model class is built, the operation is run through the public mapper API
       against a recording connection (registered with connection.register_connection(session=...)), and the
       routing_key / keyspace of every statement object handed to session.execute must be the spec's bytes.
"""
import os

from harness import tlc
from harness.replay import bind as B

META = {
    "property_id": "C38",
    "engine": "Bind",
    "technique": "TLA+ definition of Cassandra's partition key bytes (shared with C30); TLC enumerates key type lists x values x "
                 "mapper operations; each case is executed through the public cqlengine API against a recording session and the "
                 "attached SimpleStatement.routing_key compared",
    "level": "model_checking",
    "level_text": "Exhaustive over models with 1-3 partition key columns (every list of types from the bounded alphabet, two or three values "
                  "per type: an ordinary one, the falsy-but-present one (0, False, '', b''), in thorough a negative int / longer string) and 11 mapper operations that fix the whole partition "
                  "key (query-set get/count/iteration/update/delete incl. TTL and IF EXISTS, Model.create, instance save/update/"
                  "delete); every statement reaching session.execute is captured and its routing key must be the definition's bytes.",
    "level_note": "ONLY the bounded type alphabet is covered: Integer, Text, BigInt, UUID (quick) plus Boolean, SmallInt, TinyInt, "
                  "Ascii, Blob and a third value (negative int, longer text / blob) (thorough). Every type has an ordinary value and "
                  "the value that is present but falsy in Python (0, False, '', b''; a uuid has none). Every case is run in two application histories "
                  "(models keyed by the base column classes defined and used first / models keyed by their subclasses first), "
                  "each in a freshly imported cqlengine whose column and model classes are then shared by all cases. Decimal, Float and Double keys appear only as PAIRS of statements on one model whose key values "
                  "are equal in Python and different for Cassandra (1.0 / 1.00, 0.0 / -0.0; encodings written out in Bind.tla), "
                  "alone and inside a composite key. Key-capable types whose encoding is calendar / wide-number arithmetic (DateTime, Date, "
                  "Time, VarInt, Inet, TimeUUID; Decimal / Float / Double beyond those pairs) and frozen collections / UDTs are NOT covered; component "
                  "encodings of the covered types are written out in Bind.tla (Enc), not taken from the driver. Batches carry no "
                  "routing key in cqlengine and are out of scope. Trusted: TLC, the recording session double.",
    "design_ref": "5.6 C37 / C35 / C38",
}

ORDERS = ["base_first", "subclass_first"]
# where the model declares its clustering column (Bind.tla MLayouts); its type (case.ckty) differs from the partition key
# column whose place it takes
# key types with values that are equal in Python and different for Cassandra (Bind.tla MPairTypes / PairVal)
PAIR_TYPES = ["decimal", "double", "float"]
LAYOUTS = ["keys_first", "clustering_first", "clustering_between"]
# What the application defines and uses before the model of a case (Bind.tla MOrders).  cqlengine's column classes form
# a hierarchy (BigInt, SmallInt, TinyInt < Integer; Ascii < Text); anything a column class remembers at class level is
# inherited, so which of them was used first is part of the input.
PRIMERS = {"base_first": [("int",), ("text",), ("int", "text")],
           "subclass_first": [("bigint",), ("smallint",), ("tinyint",), ("ascii",), ("bigint", "smallint", "tinyint")]}

OPS = ["get", "count", "list", "update", "qdelete", "create", "save", "iupdate", "idelete", "lwt_update", "ttl_update"]


def run_op(env, model, op, keyvals):
    """Execute one mapper operation fixing the whole partition key; returns the statements the session received
    for that operation (setup statements excluded)."""
    s = env.session
    names = ["k%d" % i for i in range(1, len(keyvals) + 1)]
    fwd = dict(zip(names, keyvals))
    rev = dict(reversed(list(fwd.items())))              # keyword order must not matter
    s.executed = []
    if op == "get":
        try:
            model.objects.filter(**fwd).get()
        except model.DoesNotExist:
            pass
    elif op == "count":
        model.objects(**rev).count()
    elif op == "list":
        list(model.filter(**fwd).limit(5))
    elif op == "update":
        model.objects.filter(ck=1, **rev).update(v=5)
    elif op == "qdelete":
        model.objects.filter(**rev).delete()
    elif op == "create":
        model.create(ck=1, v=3, **fwd)
    elif op == "lwt_update":
        model.objects(ck=1, **fwd).if_exists().update(v=2)
    elif op == "ttl_update":
        model.objects.filter(**fwd).ttl(5).update(v=1)
    else:
        inst = model.create(ck=1, v=3, **fwd)
        s.executed = []
        if op == "save":
            inst.v = 4
            inst.save()
        elif op == "iupdate":
            inst.update(v=9)
        elif op == "idelete":
            inst.delete()
        else:
            raise KeyError(op)
    return list(s.executed)


def prime(env, order):
    """Define and use the models that precede the cases of `order` in the application's life."""
    vals = {"int": 258, "text": "a", "bigint": 65537, "smallint": 513, "tinyint": 5, "ascii": "xy"}
    for tys in PRIMERS[order]:
        model = env.model(tys)
        run_op(env, model, "create", [vals[t] for t in tys])
        run_op(env, model, "get", [vals[t] for t in tys])


def new_env(ctx, order):
    """A fresh application (cqlengine imported anew) that has defined and used the primer models of `order`;
    None (after reporting a violation) when the mapper fails doing so."""
    try:
        env = B.MapperEnv(4, fresh=True)
    except Exception as ex:          # noqa: a mutated mapper may already fail when a connection is registered
        ctx.violation("registering a connection with cqlengine raised %s: %s" % (type(ex).__name__, str(ex)[:300]),
                      replay={"setup": "register_connection"}, signature="setup:register_connection:raised")
        return None
    try:
        prime(env, order)
    except Exception as ex:          # noqa
        ctx.violation("defining / using the first models (%s) raised %s: %s" % (order, type(ex).__name__, str(ex)[:300]),
                      replay={"setup": "primer", "order": order}, signature="setup:primer:%s:raised" % order)
        env.close()
        return None
    return env


def evaluate(env, case, vals=None):
    tys = list(case["tys"])
    keyvals = [B.py_value(t, v) for t, v in zip(tys, case["vals"] if vals is None else vals)]
    try:
        model = env.model(tys, case.get("layout", "keys_first"), case.get("ckty", "int"))
        stmts = run_op(env, model, case["op"], keyvals)
    except Exception as ex:          # noqa: a mutated mapper may raise anywhere
        return {"raised": "%s: %s" % (type(ex).__name__, str(ex)[:200]), "statements": []}
    out = []
    for st, params in stmts:
        rk = getattr(st, "routing_key", None)
        out.append({"query": getattr(st, "query_string", str(st)), "rk": None if rk is None else list(bytearray(rk)),
                    "keyspace": getattr(st, "keyspace", None)})
    return {"raised": None, "statements": out}


def compare(env, st):
    """A case is one statement, or (case.before) two statements on the same model whose key values are equal in
    Python and different for Cassandra; each statement must carry the key of its own values."""
    case, out = st["case"], st["out"]
    head = "%s:%dkeys:%s" % (case["op"], len(case["tys"]), case.get("order", "base_first"))
    if case.get("layout", "keys_first") != "keys_first":
        head += ":" + case["layout"]
    if case.get("before"):
        r = compare_one(env, case, case["before"], list(out["rkBefore"]["b"]), head + ":first-of-pair", out)
        if r:
            return r
        head += ":after-equal-key-value"
    return compare_one(env, case, None, list(out["rk"]["b"]), head, out)


def compare_one(env, case, vals, exp, head, out):
    obs = evaluate(env, case, vals)
    rep = {"case": case, "spec": exp, "out": out, "code": obs}
    if obs["raised"]:
        return ("mapper operation raised %s" % obs["raised"], head + ":raised", rep)
    if not obs["statements"]:
        return ("no statement reached the session", head + ":nothing-executed", rep)
    for s in obs["statements"]:
        if s["rk"] is None:
            return ("statement without routing key: %s" % s["query"], head + ":no-routing-key", rep)
        if s["rk"] != exp:
            return ("routing key %s, Cassandra's partition key bytes are %s: %s" % (s["rk"], exp, s["query"]),
                    head + ":routing-key-differs", rep)
        if s["keyspace"] != B.KS:
            return ("routing key attached without the model's keyspace (%r): %s" % (s["keyspace"], s["query"]),
                    head + ":keyspace", rep)
    return None


def falsy(case, i):
    """Bind.tla Falsy: component i is fixed to a value that is present but falsy in Python (0, False, '', b'')."""
    return case["tys"][i] != "uuid" and case["vals"][i]["i"] == 0 and len(case["vals"][i]["s"]) == 0


def run(ctx):
    types = {"int", "text", "bigint", "uuid"} if ctx.quick else \
            {"int", "text", "bigint", "boolean", "uuid", "smallint", "tinyint", "ascii", "blob"}
    consts = {"MaxCols": 1, "MaxPk": 0, "PVs": {4}, "NVals": 1, "NTextVals": 1, "Partial": False, "MTypes": types, "MMaxPk": 3,
              "MOps": set(OPS), "MOrders": set(ORDERS), "MFull": not ctx.quick, "MLayouts": set(LAYOUTS), "MLayoutMaxPk": 2,
              "MPairTypes": set(PAIR_TYPES)}
    cfg = tlc.write_cfg(os.path.join(ctx.scratch, "mapper.cfg"), init="MapperInit", constants=consts,
                        invariants=["MapperKeyIsComposite", "PairKeysDiffer"], deadlock=False)
    res, states = tlc.enumerate_states("Bind", cfg, ctx.scratch, timeout=900 if ctx.quick else 3000)
    ctx.add_tlc(res, "exhaustive (MapperInit)")
    ctx.note("constants", {"MTypes": sorted(types), "MMaxPk": 3, "MOps": OPS, "MOrders": ORDERS, "MFull": not ctx.quick,
                           "MLayouts": LAYOUTS, "MLayoutMaxPk": 2, "MPairTypes": PAIR_TYPES})
    ctx.note("exhaustive", True)
    if res.violation:
        ctx.violation("TLC: %s violated on Bind.tla" % res.invariant, replay={"trace": [dict(s) for _, s in res.trace()]},
                      signature="spec:%s" % res.invariant)
        return
    if not any(len(s["case"]["tys"]) == 3 for s in states) or not any(len(s["case"]["tys"]) == 1 for s in states) or \
            {s["case"]["op"] for s in states} != set(OPS) or {s["case"]["order"] for s in states} != set(ORDERS) or \
            not any(s["case"]["order"] == "base_first" and "int" in s["case"]["tys"] and "bigint" in s["case"]["tys"] for s in states) or \
            not any(s["case"]["before"] and len(s["case"]["tys"]) == 1 for s in states) or \
            not any(s["case"]["before"] and len(s["case"]["tys"]) == 2 for s in states) or \
            not any(len(s["case"]["tys"]) == 1 and falsy(s["case"], 0) for s in states) or \
            not any(len(s["case"]["tys"]) >= 2 and falsy(s["case"], 0) and not falsy(s["case"], 1) for s in states) or \
            not any(s["case"]["layout"] == "clustering_first" and s["case"]["ckty"] != s["case"]["tys"][0] for s in states) or \
            not any(s["case"]["layout"] == "clustering_between" and s["case"]["ckty"] != s["case"]["tys"][1] for s in states):
        raise tlc.MachineryError("vacuity: single / composite keys, some operation, some definition order or a key mixing "
                                 "Integer with a subclass, pairs of equal-but-differently-encoded key values, falsy-but-present key values (single and composite) or a clustering column declared before / between the partition key columns "
                                 "not enumerated")
    by_signature = {}
    n = 0
    rejected = models = 0
    for order in ORDERS:
        # one application per order: cqlengine imported anew, the primer models defined and used, then every case of
        # that order on SHARED column / model classes (a model class per key type list, reused by all its cases)
        env = new_env(ctx, order)
        if env is None:
            by_signature["setup"] = 1
            continue
        try:
            group = [s for s in states if s["case"]["order"] == order]
            for st in group:
                case = st["case"]
                r = compare(env, st)
                n += 1
                if len(case["tys"]) >= 2:
                    ctx.nontrivial(n)
                if n % (len(states) // 4 + 1) == 3:
                    ctx.sample({"case": case, "routing_key": list(st["out"]["rk"]["b"])})
                if r:
                    by_signature[r[1]] = by_signature.get(r[1], 0) + 1
                    if by_signature[r[1]] == 1:
                        ctx.violation("%s | key types %s values %r op %s, clustering column (%s) declared %s, application "
                                      "history: %s" % (r[0], list(case["tys"]),
                                                       [B.py_value(t, v) for t, v in zip(case["tys"], case["vals"])], case["op"],
                                                       case["ckty"], case["layout"], order), replay=r[2], signature=r[1])
            models += len(env._models)
            # binding self-test: corrupted expectations must be noticed
            probe = next(s for s in group if len(s["case"]["tys"]) == 2 and not s["case"]["before"])
            good = list(probe["out"]["rk"]["b"])
            for bad in (good[:-1], good[::-1], []):
                rejected += bool(compare(env, {"case": probe["case"], "out": {"rk": {"t": "bytes", "b": tuple(bad)}}}))
        finally:
            env.close()
    ctx.evaluations = n
    ctx.traces_validated = n
    ctx.note("model_classes_built", models)
    ctx.note("failing_cases_by_signature", by_signature)
    # when the code under test already diverges from the definition the probe case may itself be a failing one (or the
    # corrupted expectation may be what the broken code returns); the self-test is then not meaningful and must not mask
    # the violation with a machinery failure
    if rejected != 3 * len(ORDERS) and not by_signature:
        raise tlc.MachineryError("binding self-test failed: %d of %d corrupted expectations detected" % (rejected, 3 * len(ORDERS)))
    ctx.note("binding_selftest", {"corrupted_rejected": rejected, "meaningful": not by_signature})
    ctx.assumptions += ["only the bounded key type alphabet (see level_note); component encodings written out in Bind.tla",
                        "statements observed at session.execute of a recording session registered via register_connection(session=...)",
                        "protocol version 4 (the covered scalar encodings do not depend on it)",
                        "application history = which models were defined and used first: base column classes (Integer, Text) or "
                        "their subclasses (BigInt, SmallInt, TinyInt, Ascii); one freshly imported cqlengine per history, column "
                        "and model classes shared by all cases of that history"]


def replay(ctx, obj):
    if "case" not in obj:
        print("setup failure, nothing to replay:", obj)
        return
    case = obj["case"]
    env = new_env(ctx, case.get("order", "base_first"))
    if env is None:
        return
    try:
        obs = evaluate(env, case)
        print("application history %s; key types %s values %s op %s" % (case.get("order"), case["tys"], case["vals"], case["op"]))
        print("spec routing key:", obj["spec"])
        print("code:", obs)
        r = compare(env, {"case": case, "out": obj.get("out") or {"rk": {"t": "bytes", "b": tuple(obj["spec"])}}})
        if r:
            ctx.violation("replayed: " + r[0], replay=obj, signature=r[1])
    finally:
        env.close()
