"""C16 - retries do exactly what the retry policy decided (spec/Request.tla)."""
from checks import _request

META = {
    "property_id": "C16",
    "engine": "Request",
    "technique": 'TLA+ spec of the retry path with a decision oracle checked by TLC (state and step invariants over the policy log and the sent-message log); every graph edge replayed on a real Session with a scripted, recording retry policy; recorded random runs validated against the spec',
    "level": "model_checking",
    "level_text": "TLC enumerates every sequence of retryable answers (read/write timeout, unavailable, overloaded, bootstrapping, server error, connection error) x every decision (RETRY, RETRY_NEXT_HOST, RETHROW, IGNORE) x consistency x idempotence flag within the bounds and checks: one consultation per error answer with retry_num = retries performed so far, the decision carried out (queued task to the same host / next usable host of the plan with the chosen consistency; that server error; empty result), nothing sent after an error outcome, no speculative timer for non-idempotent statements. Every edge is replayed on the real objects: the scripted policy's call log (kind, retry_num, decision, consistency), the messages each FakeNode received (host, consistency decoded by the independent codec), _query_retries, the queued _retry_task arguments and the outcome are compared with the spec after each step.",
    "level_note": "Trusted: TLC; the SimConnection/FakeNode/SimExecutor doubles and the independent codec; atomicity of "
                  "loop-thread callbacks, of execute_async/start_fetching_next_page and of each _retry_task; small scope "
                  "(one future, <=4 hosts, <=2 speculative executions, <=2-3 retries, <=2 pages; next page only when no "
                  "attempt of the previous page is outstanding). Where the pinned code deviates the spec keeps the intended "
                  "behaviour and the replay / trace validation reports the deviation.",
    "design_ref": "5.3 C16",
}


def run(ctx):
    _request.run(ctx, "C16")


def replay(ctx, obj):
    _request.replay(ctx, "C16", obj)
