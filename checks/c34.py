"""C34 - date, time and time-UUID helpers convert consistently.

Spec: spec/Calendar.tla (+ spec/Limbs.tla) - reference definitions, written from the calendar rules, the CQL type
      definitions, RFC 4122 and Cassandra's TimeUUIDType comparator: days <-> (y, m, d) <-> 'yyyy-mm-dd' for the years
      1..9999 and the CQL date encoding; nanoseconds <-> <<h, m, s, ns>> <-> 'hh:mm:ss[.fff[fff[fff]]]', the range rule
      "within one day" (also for strings with a fraction of more than nine digits: whatever is accepted lies within the
      day), the CQL time encoding; the 60-bit count of a version-1 UUID (in byte limbs), its field layout, the
      decode to a unix instant, Cassandra's order (timestamp, then the last 8 bytes as SIGNED bytes), the minimum / maximum
      UUID of an instant.
TLC : enumerates the cases as states and checks the property's formulas on the specification: the round trips are
      identities (DateRoundTrip, DateBlocks, TimeRoundTrip, UuidDecode), rejects are justified, min <= u <= max in
      Cassandra's order for every node / clock sequence (UuidBounds), the order is total and follows the instants
      (OrderSane).  Quick: boundary days (49 years x every month start / end, epoch, range and encoding ends), boundary
      times, boundary instants x node / clock_seq edge values.  Thorough: larger alphabets and EVERY day of the years
      1..9999 (3 652 059 days, 1024 per state).
Bind: every case is evaluated on the real cassandra.util / cassandra.cqltypes and must give the specification's answer.
"""
import os

from harness import tlc
from harness.replay import calendar as cal
from checks import _calendar as C

SCOPE = ("ENUMERATED, not proved for all inputs: DATES - quick: 49 chosen years (1-5, century / 400-year / leap / common "
         "years, 1582, 1970, 2038, 2106, 5236, 9995-9999) x every month x days {1, 2, 15, last-1, last} (and Feb 28), the epoch "
         "neighbourhood, both ends of the year range and one day outside, the ends and byte boundaries of the CQL encoding; "
         "thorough: additionally EVERY day of the years 1..9999. TIMES - every combination of boundary hours / minutes / "
         "seconds (3 x 2 x 3 quick, 8 x 6 x 6 thorough) x 19 (28) nanosecond values (0, 1, 999, 10^3, 10^6 +- 1, 999999999, "
         "...), integers just outside the day and far outside, negative ones, strings whose fields spell a time beyond the "
         "day, and 25 strings with a fraction of 10 - 12 digits (judged only by: if accepted, the result lies within the day); not "
         "arbitrary nanosecond counts in between. TIME-UUIDs - instants on 9 (24) chosen dates from 1582-10-15 to "
         "5236-03-30 x seconds {0, 86399} ({0, 1, 43200, 86399}) x 5 (15) microsecond values, plus the instants where "
         "time_low and time_mid overflow, 2^31 s, 2^32 s and the last instant of the 60-bit range, x 6 (7) nodes x 5 (7) "
         "clock sequences incl. all-0x80 / all-0x7F / all-0xFF bytes; the instant is handed over as a naive datetime, an aware "
         "datetime (+05:30), whole seconds as int, and as float only when the float equals the instant exactly. Float "
         "timestamps with a fractional part that is not exactly representable, arbitrary instants between the boundaries and "
         "random nodes are not enumerated. 'To the microsecond' is read as: less than one microsecond away.")

META = {
    "property_id": "C34",
    "engine": "Calendar",
    "technique": "TLA+ reference definitions of the proleptic Gregorian calendar, the time of day and version-1 UUIDs with "
                 "Cassandra's signed-byte order (wide numbers in byte limbs); TLC enumerates boundary cases - and every day of "
                 "the years 1..9999 - as states and checks round trips and bounds on the specification; every case is "
                 "evaluated on the real Date / Time / uuid helpers and cqltypes",
    "level": "model_checking",
    "level_text": "TLC enumerates the cases exhaustively over the configured alphabets and checks on the specification itself "
                  "that days -> date -> days, date -> text -> date, nanoseconds -> fields -> text -> nanoseconds and instant -> "
                  "UUID -> instant are identities, that every refused time lies outside the day, and that the minimum / maximum "
                  "UUID of an instant bound the UUID of every enumerated node / clock sequence in Cassandra's order (timestamp, "
                  "then signed bytes); each case is then run through the real Date, Time, uuid_from_time, min/max_uuid_from_time, "
                  "unix_time_from_uuid1, datetime_from_uuid1, SimpleDateType, TimeType, TimeUUIDType and must give the "
                  "specification's answer (round trips exactly; UUID timestamps and decoded instants to the microsecond). The "
                  "thorough tier covers every day count of the years 1..9999.",
    "level_note": SCOPE + " Trusted: TLC; the transcription of the calendar rules, RFC 4122 4.1.2 - 4.1.6 and Cassandra's "
                  "TimeUUIDType.compareCustom into Calendar.tla; the limb arithmetic of Limbs.tla (every wide number it states is "
                  "recomputed with Python integers by the harness, and Civil(n) is compared with datetime.date.fromordinal); for "
                  "the all-days family the text form is printed by the harness from the specification's yyyymmdd number "
                  "(PackedIsText ties the two on the boundary family). Not judged (recorded as open): str(Date) outside the "
                  "years 1..9999, fractions of 1/2/4/5/7/8 digits, strings like '00:00:60' whose total stays within the day, whether "
                  "and as which value of the day a fraction of more than nine digits is accepted, "
                  "unix_time_from_uuid1 beyond 2^32 s (documented float precision), sub-microsecond deviations of the UUID "
                  "timestamp.",
    "design_ref": "5.7 C34",
}

SMALLEST = {"date": lambda st: abs(st["c"]["n"]), "time": lambda st: st["c"].get("secs", 0) * 10 ** 9 + st["c"].get("ns", 0),
            "uuid": lambda st: abs(cal.inst_us(st["c"]["inst"])), "uuid100": lambda st: abs(cal.inst_us(st["c"]["inst"]))}


def describe(st):
    f, c = st["fam"], st["c"]
    if f == "date":
        return {"family": f, "days": c["n"], "date": st["x"]["ymd"], "text": cal.text(st["x"]["text"])}
    if f == "time":
        d = {"family": f, "kind": c["kind"], "expect": st["x"]["expect"]}
        d.update({k: (cal.text(v) if k == "text" else v) for k, v in c.items() if k != "kind"})
        return d
    if f in ("uuid", "uuid100"):
        d = {"family": f, "instant": str(cal.inst_datetime(c["inst"])), "uuid": bytes(st["x"]["uuid"]).hex()}
        d.update({k: v for k, v in c.items() if k != "inst"})
        return d
    return {"family": f}


def nontrivial(st):
    f, c, x = st["fam"], st["c"], st["x"]
    if f == "date":
        return bool(c["from"]) or not x["inrange"]
    if f == "time":
        return x["expect"] != "ok" or c["ns"] != 0
    return True


def case_key(st):
    f, c = st["fam"], st["c"]
    if f == "date":
        return ("date", c["n"])
    if f == "time":
        return ("time", c["kind"], c.get("neg", False), c.get("secs", 0), c.get("ns", 0), bytes(c.get("text", [])).decode())
    i = c["inst"]
    return (f, i["days"], i["sod"], i["us"], bytes(c.get("node", [])).hex(), c.get("cs", 0), c.get("rem", 0))


def evaluate(ctx, drv, cases, groups, opens):
    per_family = {}
    for st in cases:
        f = st["fam"]
        per_family[f] = per_family.get(f, 0) + 1
        if f == "pair":
            cal.check_pair(st)
            continue
        n, devs, op = cal.judge(drv, st)
        ctx.evaluations += n
        ctx.traces_validated += 1
        if nontrivial(st):
            ctx.nontrivial(case_key(st))
        if per_family[f] % 397 == 1:
            ctx.sample(describe(st), limit=8)
        for k in op:
            opens[k] = opens.get(k, 0) + 1
        for sig, msg, detail in devs:
            groups.setdefault(sig, []).append((st, msg, detail))
    return per_family


def selftest(ctx, drv, cases):
    """binding self-test: a corrupted expectation must change the judgement (so it also works on a broken driver)"""
    V = cal.verdict

    def differs(good, bad):
        return V(cal.judge(drv, good)[1]) != V(cal.judge(drv, bad, crosscheck=False)[1])

    def mut(st, **x):
        return dict(st, x=dict(st["x"], **x))
    d = next(s for s in cases if s["fam"] == "date" and s["x"]["inrange"] and s["x"]["ymd"] == [2024, 2, 29])
    bad_d = mut(d, ymd=[2024, 3, 1], text=list(b"2024-03-01"))                     # "2024 is not a leap year"
    t = next(s for s in cases if s["fam"] == "time" and s["x"]["expect"] == "ok" and s["x"]["hmsn"] == [23, 59, 59, 999999999])
    bad_t = mut(t, enc=t["x"]["enc"][:-1] + [254], hmsn=[23, 59, 59, 999999998],
                forms=[list(b"23:59:59.999999998")], openforms=[])
    r = next(s for s in cases if s["fam"] == "time" and s["c"]["kind"] == "int" and s["x"]["expect"] == "reject" and not s["c"]["neg"])
    u = next(s for s in cases if s["fam"] == "uuid" and s["c"]["node"][0] >= 128 and s["c"]["inst"]["days"] == 0)
    tests = [differs(d, bad_d), differs(t, bad_t)]
    try:                                         # a wrong wide number in the specification's answer: the limb cross-check
        cal.judge(drv, mut(u, ts=u["x"]["ts"][:-1] + [(u["x"]["ts"][-1] + 10) % 256]))
        tests.append(False)
    except cal.LimbMismatch:
        tests.append(True)
    # a demanded refusal: the in-range neighbour of a refused integer must be judged differently
    ok_neighbour = dict(r, c=dict(r["c"], secs=86399, ns=999999999))
    tests.append(V(cal.judge(drv, r)[1]) != V(cal.judge(drv, ok_neighbour)[1]) or not cal.judge(drv, r)[1])
    # the harness's comparator: a pair with the relation flipped must be noticed
    p = next(s for s in cases if s["fam"] == "pair" and s["x"]["rel"] == "lt" and s["x"]["plain"] == "gt")
    try:
        cal.check_pair(dict(p, x=dict(p["x"], rel="gt")))
        tests.append(False)
    except cal.LimbMismatch:
        tests.append(True)
    noticed = [bool(b) for b in tests]
    if noticed != [True, True, True, True, True]:
        raise tlc.MachineryError("binding self-test failed: corrupted expectations noticed = %s" % noticed)
    ctx.note("binding_selftest", {"corrupted_rejected": len(noticed)})


def report(ctx, groups):
    for sig in sorted(groups):
        members = groups[sig]
        st, msg, detail = min(members, key=lambda m: (SMALLEST[m[0]["fam"]](m[0]), str(case_key(m[0]))))
        ctx.violation("%s; %d cases; smallest: %s %s" % (msg, len(members), describe(st), detail),
                      replay={"state": st, "cases": len(members)}, signature=sig)


def run(ctx):
    drv = cal.Driver.pure()
    groups, opens = {}, {}
    try:
        cases = C.enumerate_cases(ctx, C.FAMILIES, not ctx.quick,
                                  "boundary dates, times, time-UUID instants x node / clock_seq, order pairs"
                                  + ("" if ctx.quick else " (large alphabets)"))
        if cases is None:
            return
        per_family = evaluate(ctx, drv, cases, groups, opens)
        selftest(ctx, drv, cases)
        if not ctx.quick:
            blocks = C.enumerate_cases(ctx, ["dateall"], True, "every day of the years 1..9999", witnesses=False)
            if blocks is None:
                return
            blocks.sort(key=lambda s: s["c"]["start"])
            days = sum(s["c"]["count"] for s in blocks)
            if days != C.LAST_DAY - C.FIRST_DAY + 1 or blocks[0]["c"]["start"] != C.FIRST_DAY \
                    or any(a["c"]["start"] + a["c"]["count"] != b["c"]["start"] for a, b in zip(blocks, blocks[1:])):
                raise tlc.MachineryError("the all-days family does not cover the years 1..9999 exactly (%d days)" % days)
            workers = max(1, min(8, (os.cpu_count() or 2) // 2))
            n_eval, devs = cal.run_blocks([(s["c"]["start"], s["x"]["packed"]) for s in blocks], workers)
            ctx.evaluations += n_eval
            ctx.traces_validated += days
            per_family["dateall (days)"] = days
            ctx.note("all_days", {"first": C.FIRST_DAY, "last": C.LAST_DAY, "days": days, "states": len(blocks), "worker_processes": workers})
            for s in blocks:                     # month ends of every year as distinct non-trivial cases
                for k, p in enumerate(s["x"]["packed"]):
                    if p % 100 == 1:
                        ctx.nontrivial(("date", s["c"]["start"] + k))
            for sig, msg, detail in devs:
                st = {"fam": "date", "ph": "case", "c": {"n": detail["n"], "from": []},
                      "x": {"inrange": True, "ymd": [], "text": [], "enc": []}}
                p = next(b for b in blocks if b["c"]["start"] <= detail["n"] < b["c"]["start"] + b["c"]["count"])
                v = p["x"]["packed"][detail["n"] - p["c"]["start"]]
                st["x"].update(ymd=[v // 10000, v // 100 % 100, v % 100], text=list(("%04d-%02d-%02d" % (v // 10000, v // 100 % 100, v % 100)).encode()),
                               enc=list((detail["n"] + 2 ** 31).to_bytes(4, "big")))
                groups.setdefault(sig, []).append((st, msg, detail))
    except cal.LimbMismatch as ex:
        raise tlc.MachineryError("the specification's wide arithmetic disagrees with Python's integers: %s" % ex)
    ctx.note("exhaustive", True)
    ctx.note("cases_per_family", per_family)
    ctx.note("open_not_judged", dict(sorted(opens.items())))
    ctx.note("rule", "one case = one TLC state of Calendar.tla (a day count / a time value, refused integer or string / an "
                     "instant x node x clock_seq / a UUID with a 100-ns rest); evaluations = comparisons of a real result "
                     "with the specification's; non-trivial = a date given by its calendar fields or outside the year range, "
                     "a time with a fractional part or a refusal, every UUID case; in the all-days family the first day of "
                     "every month")
    report(ctx, groups)
    ctx.assumptions += [SCOPE, "the instant of a naive datetime is its reading as UTC (the driver's documented convention)",
                        "an out-of-range time may be refused with any exception"]


def replay(ctx, obj):
    drv = cal.Driver.pure()
    st = obj["state"]
    print("case: %s" % describe(st))
    n, devs, op = cal.judge(drv, st)
    for sig, msg, detail in devs:
        print("  %s: %s %s" % (sig, msg, detail))
    for sig in sorted({d[0] for d in devs}):
        ctx.violation("replayed: still deviates: %s" % sig, replay=obj, signature=sig)
    if not devs:
        print("  no deviation")
