"""C29 - simple-statement parameters are injection-safe and value-preserving (structural half).

Spec : spec/CqlTerm.tla (on spec/CqlLex.tla) - lexer + push-down recogniser of ONE CQL literal term, the
       domain of Python value SHAPES (type tag x payload x children; user subclasses of every supported
       type; nesting <= 3), Expect(shape) and a reference encoder.
TLC  : for every shape the recogniser is run over RefEncode(shape): exactly one term matching Expect(shape).
Bind : every enumerated shape is instantiated as a real Python value and substituted by
       cassandra.query.bind_params positionally ("%s") and by name ("%(a)s") with a stock Encoder; the produced
       characters are a trace validated by TLC against Trace_CqlTerm.tla: exactly one term, of the kind Expect
       gives for the type tag; decoded string / blob / integer / uuid content equal to the original.
Several parameters of one statement (tag "params"): each is its own literal, also next to an equal-but-different value.
Not covered: that a float / decimal / date / time literal denotes the same number as the prepared path; timestamps are
       decided only for datetimes near the epoch (naive, UTC offset 0, +2 h, -1 h): literal = wall - offset (ms) = DateType.serialize.
"""
import json
import os
import re
import time

from harness import tlc
from harness.pyenv import repo_import
from harness.replay import cqllex
from harness.tlaval import to_py

META = {
    "property_id": "C29",
    "engine": "CqlTerm",
    "technique": "TLA+ lexer + push-down recogniser of one CQL literal term checked by TLC over all enumerated value "
                 "shapes; each shape is instantiated, bound by the real bind_params/Encoder, and the produced characters "
                 "are validated as a trace by the recogniser spec",
    "level": "model_checking",
    "level_text": "TLC enumerates Python value shapes (every supported type tag and a user subclass of each, payloads with "
                  "quote characters, non-BMP and non-ASCII characters, empty values, NaN/infinities, 2^63, nesting to "
                  "depth 3) and proves on the specification that the canonical literal of each shape is recognised as "
                  "exactly one term of the expected kind; every shape is then bound by the real code positionally and by "
                  "name and TLC accepts or rejects the produced characters with the same recogniser, comparing decoded "
                  "text, blob, integer and uuid content with the original, and for timezone-aware / naive datetimes near the "
                  "epoch the literal's integer with the instant (wall clock - UTC offset, ms) computed in the specification "
                  "and with DateType.serialize. Exhaustive over the enumerated shapes.",
    "level_note": "Structural half of C29, plus timestamps near the epoch: NOT covered is that a float / decimal / date / "
                  "time literal (and a datetime far from the epoch) denotes the same number as the prepared-statement path "
                  "(numeric comparison; Expect only asks for a number, integer or string token there). For datetimes "
                  "1970-01-01 + {0, 500 us, 1 s, 1 day + 123 ms} that are naive or carry a UTC offset of 0, +2 h or -1 h the literal "
                  "must be exactly the integer wall - offset (ms) of the specification AND equal the 8-byte value "
                  "DateType.serialize sends on the prepared path. The sign of a float / decimal literal is decided "
                  "(-0.0). Statements with two and three parameters (query '(%s, %s)', positional and named) over values "
                  "that compare and hash equal in Python but are different values (1 / True, 0 / False, 0.0 / -0.0, "
                  "(0,) / (-0.0,)): every parameter must be substituted as its own literal. Trusted: TLC; the transcription of Cassandra's Lexer.g/Parser.g term "
                  "grammar into CqlLex.tla/CqlTerm.tla (durations, $$-strings, comments, bind markers, function calls, "
                  "type casts and UDT literals are not literal terms the encoder targets); the harness's instantiation "
                  "of a shape as a Python value. Children alphabets are small (5 quick / 9 thorough values).",
    "design_ref": "5.7 C29",
}

WITNESSES = ["Witness_Depth3", "Witness_MapInList", "Witness_EmptyBrace", "Witness_QuoteInStr", "Witness_AwareBeforeEpoch", "Witness_EqualButDifferent"]
PREPARED_SIG = "Encoder.cql_encode_datetime:literal-differs-from-DateType.serialize"
SUBCLASS_SIG = "Encoder.mapping:exact-type-dispatch:subclass-of-supported-type-falls-to-str"
MODES = (("positional", "%s"), ("named", "%(a)s"))


def bind(shape, mode, base=False):
    """-> (text or None, error or None); never raises."""
    q = repo_import("cassandra.query")
    enc = repo_import("cassandra.encoder")
    try:
        val = cqllex.instantiate(shape, base=base)
    except Exception as ex:
        raise tlc.MachineryError("cannot instantiate shape %r: %r" % (shape, ex))
    try:
        e = enc.Encoder()
        if shape["tag"] == "params":              # several parameters of one statement: (%s, %s) / (%(p1)s, %(p2)s)
            n = len(val)
            if mode == "positional":
                out = q.bind_params("(%s)" % ", ".join(["%s"] * n), list(val), e)
            else:
                out = q.bind_params("(%s)" % ", ".join("%%(p%d)s" % i for i in range(n)),
                                    dict(("p%d" % i, v) for i, v in enumerate(val)), e)
        else:
            out = q.bind_params("%s", [val], e) if mode == "positional" else q.bind_params("%(a)s", {"a": val}, e)
    except Exception as ex:
        return None, "%s: %s" % (type(ex).__name__, ex)
    if not isinstance(out, str):
        return None, "returned %r" % (out,)
    return out, None


def kid_wants(shape, want):
    """Pairs (child shape, expectation of the child) of a collection shape."""
    if want["k"] == "map":
        flat = [w for pair in want["v"] for w in pair]
    else:
        flat = list(want["v"])
    return list(zip(shape["kids"], flat)) if len(flat) == len(shape["kids"]) else []


def culprit(shape, want, mode):
    """The innermost value that, bound on its own, is already not the expected term (diagnostics / signature only).
    User subclasses are replaced by their base types here, so that the subclass defect (which has its own
    signature) does not hide where another defect sits."""
    for kid, kw in kid_wants(shape, want):
        out, err = bind(kid, mode, base=True)
        if err is not None or not cqllex.mirror_term_accepts(kw, out):
            return culprit(kid, kw, mode)
    return shape


def prepared_ms(shape):
    """-> (milliseconds DateType.serialize sends for a datetime_tz shape / list of one, error); (None, None) otherwise."""
    try:
        return cqllex.prepared_epoch_ms(shape), None
    except Exception as ex:                       # a (mutated) driver may raise
        return None, "%s: %s" % (type(ex).__name__, ex)


def signature(shape, want, mode, out, why=""):
    if why.startswith("prepared"):
        return PREPARED_SIG
    if cqllex.has_subclass(shape):
        bout, berr = bind(shape, mode, base=True)
        if berr is None and cqllex.mirror_term_accepts(want, bout):
            return SUBCLASS_SIG
    tag = culprit(shape, want, mode)["tag"]
    return "Encoder:%s:%s" % (cqllex.SUBCLASS_BASE.get(tag, tag), "raises" if out is None else "not-the-expected-single-term")


class _Phases:
    """Wall time per phase, recorded in the evidence (information only)."""

    def __init__(self, ctx):
        self.ctx, self.t, self.d = ctx, time.time(), {}

    def done(self, name):
        now = time.time()
        self.d[name] = round(now - self.t, 1)
        self.t = now
        self.ctx.note("phase_wall_s", dict(self.d))


def run(ctx):
    ph = _Phases(ctx)
    consts = {"MaxLen": 0, "Rich": not ctx.quick}
    ctx.note("constants", consts)
    cfg = tlc.write_cfg(os.path.join(ctx.scratch, "CqlTerm.cfg"), init="TInit", next="TNext", constants=consts,
                        invariants=["RefAccepted", "StackBounded"], deadlock=False)
    res = tlc.check_model("CqlTerm", cfg, ctx.scratch, coverage=True, timeout=600 if ctx.quick else 3000)
    ctx.add_tlc(res, "recogniser over the reference literal of every shape")
    ctx.note("exhaustive", True)
    if res.violation:
        ctx.violation("TLC: invariant %s violated in CqlTerm.tla" % res.invariant,
                      replay={"trace": [s for _, s in res.trace()]}, signature="spec:" + str(res.invariant))
        return
    ph.done("tlc_exhaustive")
    cov = res.coverage()
    for act in ("TChar", "TEnd"):
        if cov.get(act, (0, 0))[0] == 0:
            raise tlc.MachineryError("action %s of CqlTerm.tla was never taken (coverage %r)" % (act, cov))
    wcfg = tlc.write_cfg(os.path.join(ctx.scratch, "CqlTermW.cfg"), init="TInitW", next="TNext",
                         constants={"MaxLen": 0, "Rich": False}, invariants=WITNESSES, deadlock=False)
    wres = tlc.check_model("CqlTerm", wcfg, ctx.scratch, timeout=600, extra=("-continue",))
    reached = set(re.findall(r'Invariant (\S+) is violated', wres.out))
    if reached != set(WITNESSES):
        raise tlc.MachineryError("vacuity witnesses not reached: %s" % sorted(set(WITNESSES) - reached))
    ctx.note("vacuity_witnesses_reached", len(WITNESSES))
    ph.done("tlc_witnesses")

    ecfg = tlc.write_cfg(os.path.join(ctx.scratch, "CqlTermE.cfg"), init="TInit", next="TStutter", constants=consts,
                         deadlock=False)
    eres, states = tlc.enumerate_states("CqlTerm", ecfg, ctx.scratch, timeout=900)
    ctx.add_tlc(eres, "shapes enumerated for the binding")

    traces, owners, index = [], [], {}
    failures = []                              # (shape, want, mode, out, err, why)
    tags = set()
    for st in states:
        shape = to_py(st["shape"])
        want = cqllex.want_json(st["want"])
        tags.add(shape["tag"])
        for mode, _ in MODES:
            ctx.evaluations += 1
            out, err = bind(shape, mode)
            if err is not None:
                failures.append((shape, want, mode, None, err, "raises"))
                continue
            key = (json.dumps(want, sort_keys=True), out)
            if key not in index:
                index[key] = len(traces)
                traces.append(cqllex.term_trace(want, out))
                owners.append([])
            owners[index[key]].append((shape, want, mode, out))
        if shape["kids"] or any(c in shape["p"] for c in ("'", '"', "U+1D11E")) or shape["tag"] in cqllex.SUBCLASS_BASE:
            ctx.nontrivial(json.dumps(shape, sort_keys=True))
        if len(ctx.samples) < 5 and len(shape["kids"]) == 2 and shape["kids"][1]["kids"]:
            ctx.sample({"shape": shape, "expect": want, "bound": bind(shape, "positional")[0]})
    n_real = len(traces)
    ph.done("bind_real_code")

    w_str = {"k": "str", "v": ["a", "'", "b"]}
    w_list = {"k": "list", "v": [w_str, {"k": "int", "v": ["-", "7"]}]}
    good = cqllex.term_trace(w_list, "['a''b', -7]")
    selftests = {
        "good": good,
        "unquoted_string": cqllex.term_trace(w_str, "a'b"),
        "injection": cqllex.term_trace({"k": "str", "v": list("x' OR 1=1")}, "x' OR 1=1"),
        "content_changed": cqllex.term_trace(w_list, "['a''c', -7]"),
        "two_terms": cqllex.term_trace(w_str, "'a''b' 'a''b'"),
        "event_dropped": good[:3] + good[4:],
        "class_flipped": [dict(e, cls="other") if e.get("ch") == "[" else e for e in good],
        "python_repr_bytes": cqllex.term_trace({"k": "hex", "v": ["0", "1"]}, "b'\\x01'"),
        "map_for_set": cqllex.term_trace({"k": "set", "v": [w_str]}, "{'a''b': 1}"),
        "unbalanced": cqllex.term_trace(w_list, "['a''b', -7"),
        "nested_empty_parens": cqllex.term_trace({"k": "list", "v": [{"k": "tuple", "v": []}]}, "[()]"),
    }
    st_names = list(selftests)
    traces += [selftests[k] for k in st_names]
    tcfg = tlc.write_cfg(os.path.join(ctx.scratch, "Trace_CqlTerm.cfg"), init="TraceInit", next="TraceNext",
                         constants={"MaxLen": 0, "Rich": False}, constraints=["Progress"], postcondition="Done",
                         deadlock=False)
    vres, progress = tlc.validate_traces("Trace_CqlTerm", tcfg, traces, ctx.scratch, timeout=900 if ctx.quick else 3000)
    if vres.violation or progress is None:
        raise tlc.MachineryError("trace validation run failed: %s\n%s" % (vres.error, vres.out[-2000:]))
    ctx.add_tlc(vres, "trace validation")
    ph.done("tlc_trace_validation")
    accepted = [progress[i] == len(traces[i]) + 1 for i in range(len(traces))]
    got = {k: accepted[n_real + i] for i, k in enumerate(st_names)}
    if got != {k: (k == "good") for k in st_names}:
        raise tlc.MachineryError("binding self-test failed: %r" % got)
    ctx.note("binding_selftest", {"corrupted_rejected": len(st_names) - 1, "good_accepted": 1})

    for i in range(n_real):
        for shape, want, mode, out in owners[i]:
            if cqllex.mirror_term_accepts(want, out) != accepted[i]:
                raise tlc.MachineryError("Python mirror and TLC disagree on %r (TLC %s)" % (out, accepted[i]))
            if accepted[i]:
                # timestamps: the accepted literal is the specification's integer; it must also be what the
                # prepared-statement path (DateType.serialize) sends for the same value
                pm, perr = prepared_ms(shape)
                if perr is not None:
                    failures.append((shape, want, mode, out, None, "prepared path raised %s" % perr))
                elif pm is not None and cqllex.literal_epoch_ms(shape, out) != pm:
                    failures.append((shape, want, mode, out, None, "prepared path sends %d ms" % pm))
                else:
                    ctx.traces_validated += 1
                    if pm is not None:
                        ctx.count("timestamp_literals_equal_to_prepared_path")
            else:
                failures.append((shape, want, mode, out, None, "rejected at character %d" % max(progress[i] - 2, 0)))
    report(ctx, failures)
    ph.done("verdicts")
    ctx.note("shapes", len(states))
    ctx.note("type_tags", sorted(tags))
    ctx.note("distinct_traces", n_real)
    ctx.assumptions += ["a stock cassandra.encoder.Encoder() (no user-registered UDT / tuple encoders); the literal is "
                        "judged on its own (query text '%s' / '%(a)s')",
                        "literal terms = Cassandra 3.0-4.x constant / collectionLiteral / tupleLiteral / NULL",
                        "numeric equality of float/decimal/date/time literals with the prepared path is NOT decided; "
                        "timestamps are decided only for the datetime_tz shapes (near the epoch, offsets none/0/+2h/-1h)"]


def describe(shape, want, mode, out, err):
    val = cqllex.instantiate(shape)
    if err is not None:
        return "bind_params(%s) of %s value %r raised %s" % (mode, type(val).__name__, val, err)
    ok, terms = cqllex.mirror_term(out)
    extra = ""
    pm, perr = prepared_ms(shape)
    if pm is not None:
        extra = "; DateType.serialize (prepared path) sends %d ms for this value" % pm
    return ("bind_params(%s) of %s value %r produced %r, which CQL reads as %s%r - wanted exactly one term %s%s"
            % (mode, type(val).__name__, val, out, "" if ok else "(not literal terms) ", terms, json.dumps(want), extra))


def report(ctx, failures):
    by_sig = {}
    for f in failures:
        shape, want, mode, out, err, why = f
        by_sig.setdefault(signature(shape, want, mode, out, why), []).append(f)
    for sig in sorted(by_sig):
        cases = sorted(by_sig[sig], key=lambda c: (len(json.dumps(c[0])), json.dumps(c[0], sort_keys=True), c[2]))
        pick = next((c for c in cases if c[0]["tag"] == "MyStr" and c[0]["p"] == ["a", "'", "b"] and c[2] == "positional"), cases[0])
        shape, want, mode, out, err, why = pick
        tags = sorted(set(c[0]["tag"] for c in cases))
        ctx.violation("%s%s  [%d cases with this signature; outermost type tags: %s]" % (
            describe(shape, want, mode, out, err), " (%s)" % why if why.startswith("prepared") else "", len(cases), ", ".join(tags)),
            replay={"shape": shape, "want": want, "mode": mode, "output": out,
                    "more": [{"shape": c[0], "want": c[1], "mode": c[2], "output": c[3]} for c in cases[:25] if c is not pick]},
            signature=sig)


def replay(ctx, r):
    cases = [r] + list(r.get("more", []))
    bad = 0
    for c in cases:
        out, err = bind(c["shape"], c["mode"])
        ok = err is None and cqllex.mirror_term_accepts(c["want"], out)
        pm, perr = prepared_ms(c["shape"])
        if ok and (perr is not None or (pm is not None and cqllex.literal_epoch_ms(c["shape"], out) != pm)):
            ok = False
            print("   prepared path: %s" % (perr or "%d ms" % pm))
        print("%-10s %r -> %r  %s" % (c["mode"], cqllex.instantiate(c["shape"]), out if err is None else err,
                                      "one term as expected" if ok else "NOT the expected single term: %r" % (
                                          cqllex.mirror_term(out)[1] if out is not None else None,)))
        if not ok:
            bad += 1
    if bad:
        out, err = bind(r["shape"], r["mode"])
        ctx.violation("replayed: %d of %d cases still are not the expected single term" % (bad, len(cases)), replay=r,
                      signature=signature(r["shape"], r["want"], r["mode"], out))
