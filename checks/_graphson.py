"""Shared machinery of C40 (spec/GraphSON.tla, spec/Trace_GraphSON.tla, harness/replay/graphson.py).

  enumerate_cases   TLC enumerates (version, value) cases, checks the round trip / tag / form invariants on the
                    specification itself and dumps every case
  check_witnesses   vacuity: TLC must violate each Witness_* (run on the one family that contains it)
  run_case          one case on the REAL code: serialize, compare the wire form with the specification's tree, real round
                    trip, real reader on the specification's tree and on the alternative forms
  judge_wire        code -> spec: TLC reads the real wire forms with the specification's reader (Trace_GraphSON.tla)

What is a violation of C40 and what is not (the statement: "deserializing what the driver serializes yields an equal
value"): ONLY a failed real round trip (exception, or a value that is not equal) of a value of a type the driver documents
as supported in that GraphSON version.  Every other deviation (a wire form that differs from the specification's, a form
the real reader cannot read, a class / exponent that changes although the value stays equal) is recorded as an
observation in the evidence.
"""
import json
import os
from concurrent.futures import ThreadPoolExecutor

from harness import tlc
from harness.replay import graphson as gs

SCALAR_FAMILIES = ["int", "float", "dec", "text", "bool", "uuid", "blob", "inet", "date", "time", "inst", "dur", "dsedur", "geo"]
CONTAINER_FAMILIES = ["list", "set", "map", "nest2"]
FAMILIES = SCALAR_FAMILIES + CONTAINER_FAMILIES
INVARIANTS = ["TypeOK", "RoundTrip", "AltsRead", "NormIdempotent", "V3Total", "VersionForms", "PayloadKinds", "IntTagRule",
              "TextShapes", "MapAlternates"]
# witness -> the family whose alphabet contains it
WITNESSES = {"Witness_NegSubSecond": "dur", "Witness_NegDuration": "dur", "Witness_Int64": "int", "Witness_BigInteger": "int",
             "Witness_DecExponent": "dec", "Witness_NonFinite": "float", "Witness_Padding2": "blob",
             "Witness_Inet6Compress": "inet", "Witness_AwareInstant": "inst", "Witness_Depth2": "nest2",
             "Witness_NoForm": "set", "Witness_ObjectMap": "map", "Witness_PolygonHole": "geo"}
QUICK_WITNESSES = ["Witness_NegSubSecond", "Witness_Int64", "Witness_DecExponent", "Witness_Depth2"]
JVM = {"JAVA_TOOL_OPTIONS": "-XX:TieredStopAtLevel=1 -XX:ParallelGCThreads=2 -Xms512m"}

DOCUMENTED_SCALARS = {"dec", "text", "bool", "uuid", "blob", "inet", "date", "time", "inst", "dur", "point", "line", "poly"}


def constants(quick, families=FAMILIES):
    return {"Versions": {1, 2, 3}, "Families": set(families), "Rich": not quick}


def enumerate_cases(ctx):
    """-> list of case states (expect 'ok' / 'na'), or None after reporting an invariant violation of the specification"""
    cfg = tlc.write_cfg(os.path.join(ctx.scratch, "GraphSON.cfg"), constants=constants(ctx.quick), invariants=INVARIANTS,
                        deadlock=False)
    res, states = gs.enumerate_fast(tlc, "GraphSON", cfg, ctx.scratch, timeout=900 if ctx.quick else 3000, coverage=False)
    ctx.add_tlc(res, "enumeration")
    if res.violation:
        ctx.violation("TLC: invariant %s violated in GraphSON.tla (the reference writer / reader are inconsistent)" % res.invariant,
                      replay={"trace": [s for _, s in res.trace()]}, signature="spec:" + str(res.invariant))
        return None
    cases = [s for s in states if s["expect"] != "seed"]
    seen = {s["expect"] for s in cases}
    if not {"ok", "na"} <= seen:
        raise tlc.MachineryError("vacuity: action Case never produced both outcomes (%s)" % sorted(seen))
    return cases


def _witness(args):
    w, fam, scratch = args
    cfg = tlc.write_cfg(os.path.join(scratch, w + ".cfg"), constants=constants(True, [fam]), invariants=[w], deadlock=False)
    res = tlc.check_model("GraphSON", cfg, scratch, timeout=600, workers=2, env=JVM, heap="1g")
    return w, res.invariant


def start_witnesses(ctx):
    """TLC must VIOLATE every witness; the runs go on in the background (one small family each)"""
    names = QUICK_WITNESSES if ctx.quick else sorted(WITNESSES)
    pool = ThreadPoolExecutor(max_workers=2 if ctx.quick else 4)
    futs = [pool.submit(_witness, (w, WITNESSES[w], ctx.scratch)) for w in names]
    return pool, futs


def finish_witnesses(ctx, handle):
    pool, futs = handle
    reached = []
    try:
        for f in futs:
            w, inv = f.result()
            if inv != w:
                raise tlc.MachineryError("vacuity witness %s was not reached" % w)
            reached.append(w)
    finally:
        pool.shutdown(wait=True)
    ctx.note("vacuity_witnesses_reached", len(reached))
    ctx.note("vacuity_witnesses", reached)


# ------------------------------------------------------------------ what the driver documents as supported
def documented(val, ver):
    """docs/classic_graph.rst 'Graph Types', docs/graph.rst 'Graph Types for the Core Engine', the table in graphson.py:
    the scalar types in every version (typed-number wrappers and the CQL Duration: GraphSON 3 / Core graphs only);
    list / set / map: GraphSON 3 only ('N/A' for GraphSON 2) - except a dict with text keys, which is what the
    parameters of execute_graph are in every version; Distance has no serializer in graphson.py (fluent API only)."""
    k = val[0]
    if k in ("int", "float"):
        return val[1] == "none" or ver == 3
    if k in DOCUMENTED_SCALARS:
        return True
    if k == "dsedur":
        return ver == 3
    if k in ("list", "set"):
        return ver == 3 and all(documented(x, ver) for x in val[1])
    if k == "map":
        return all(documented(p[1], ver) and documented(p[0], ver) for p in val[1]) and \
            (ver == 3 or all(p[0][0] == "text" for p in val[1]))
    return False


def subcontainers(val):
    """the containers inside val, innermost first, val itself last"""
    k = val[0]
    if k in ("list", "set"):
        for x in val[1]:
            for y in subcontainers(x):
                yield y
        yield val
    elif k == "map":
        for p in val[1]:
            for y in subcontainers(p[1]):
                yield y
        yield val


def feature(val):
    k = val[0]
    if k == "int":
        return "negative" if val[2] else "non-negative"
    if k in ("dec", "dur"):
        return "negative" if val[1] else "non-negative"
    return ""


# ------------------------------------------------------------------ one case on the real code
def roundtrip(drv, ver, val, norm, form=0):
    """-> (symptom, detail, wire text or None); symptom 'ok' | 'serialize-raises:X' | 'read-raises:X' | 'value-differs'
    | 'equal-not-identical' (equal, but class / exponent / sign of zero changed: not a violation) | 'skipped'"""
    try:
        obj = gs.to_python(drv, val, form)
        want = gs.expected_python(drv, norm)
    except gs.NotConstructible:
        return "skipped", "no such Python set / dict (merged or unhashable elements)", None
    try:
        text = drv.serialize(ver, obj)
    except Exception as e:                                  # noqa - the code under test
        return "serialize-raises:%s" % type(e).__name__, str(e)[:200], None
    try:
        back = drv.read(ver, text, gs.shape_of(val))
    except Exception as e:                                  # noqa
        return "read-raises:%s" % type(e).__name__, "wire %s: %s" % (text[:300], str(e)[:200]), text
    if not gs.equal(back, want):
        return "value-differs", "wire %s read back as %r, expected %r" % (text[:300], back, want), text
    if not gs.strictly_equal(back, want):
        return "equal-not-identical", "%r for %r" % (back, want), text
    return "ok", "", text


class Collector(object):
    """groups violations by signature and observations by key"""

    def __init__(self, drv):
        self.drv = drv
        self.groups = {}            # signature -> list of (case, symptom, detail)
        self.obs = {}               # key -> {"count": n, "example": ...}
        self.judge = {}             # json key -> record for Trace_GraphSON
        self.judge_meta = {}        # json key -> (ver, kind)
        self.counts = {"cases": 0, "roundtrips": 0, "roundtrips_ok": 0, "wire_identical": 0, "wire_differs": 0,
                       "no_spec_form": 0, "reader_runs": 0, "reader_ok": 0, "skipped_not_constructible": 0,
                       "documented_cases": 0}
        self._leaf_cache = {}

    def observe(self, key, example):
        o = self.obs.setdefault(key, {"count": 0, "example": example})
        o["count"] += 1

    OKS = ("ok", "equal-not-identical", "skipped")

    def py_norm(self, val):
        """Norm of a value assembled from enumerated leaves (KeyError for a leaf TLC did not enumerate as a scalar case)"""
        k = val[0]
        if k in ("list", "set"):
            return [k, [self.py_norm(x) for x in val[1]]]
        if k == "map":
            return ["map", [[self.py_norm(a), self.py_norm(b)] for a, b in val[1]]]
        return self.norms[json.dumps(val)]

    def fails(self, ver, val):
        """symptom of the real round trip of `val` alone ('ok' when it holds or cannot be judged)"""
        key = json.dumps([ver, val])
        if key not in self._leaf_cache:
            worst = "ok"
            try:
                norm = self.py_norm(val)
                for form in range(gs.forms_of(val)):
                    sy = roundtrip(self.drv, ver, val, norm, form)[0]
                    if sy not in self.OKS:
                        worst = sy
            except KeyError:
                pass
            self._leaf_cache[key] = worst
        return self._leaf_cache[key]

    def signature(self, ver, val, symptom):
        """stable class of failure: the smallest thing that fails on its own - a leaf type (+ sign), else a one-element
        set / list of a leaf type, else a one-entry map with that key type / value type - not the container it sits in"""
        if val[0] not in gs.CONTAINERS:
            return "roundtrip:%s:%s:%s" % (val[0], feature(val), symptom)
        for leaf in gs.leaves(val):
            sy = self.fails(ver, leaf)
            if sy != "ok":
                return "roundtrip:%s:%s:%s" % (leaf[0], feature(leaf), sy)
        a = ["text", ["a"]]
        for sub in subcontainers(val):
            if self.fails(ver, sub) == "ok":
                continue
            if sub[0] in ("list", "set"):
                for x in sub[1]:
                    sy = self.fails(ver, [sub[0], [x]])
                    if x[0] not in gs.CONTAINERS and sy != "ok":
                        return "roundtrip:%s-of-%s:%s" % (sub[0], x[0], sy)
            else:
                for k, v in sub[1]:
                    sy = self.fails(ver, ["map", [[k, a]]])
                    if sy != "ok":
                        return "roundtrip:map-key-%s:%s" % (k[0], sy)
                    sy = self.fails(ver, ["map", [[a, v]]])
                    if v[0] not in gs.CONTAINERS and sy != "ok":
                        return "roundtrip:map-value-%s:%s" % (v[0], sy)
        return "roundtrip:container-%s:%s" % (val[0], symptom)

    def run_case(self, st):
        drv = self.drv
        ver, val, norm = st["ver"], st["val"], st["norm"]
        kind = val[0]
        c = self.counts
        c["cases"] += 1
        doc = documented(val, ver) and st["expect"] == "ok"
        c["documented_cases"] += 1 if doc else 0
        evals = 0
        spec_tree = gs.canon(st["tree"]) if st["expect"] == "ok" else None
        wires = {}
        for form in range(gs.forms_of(val)):
            symptom, detail, text = roundtrip(drv, ver, val, norm, form)
            evals += 1
            if symptom == "skipped":
                c["skipped_not_constructible"] += 1
                continue
            c["roundtrips"] += 1
            tag = "v%d:%s" % (ver, kind)
            if symptom == "ok":
                c["roundtrips_ok"] += 1
            elif symptom == "equal-not-identical":
                c["roundtrips_ok"] += 1
                self.observe("roundtrip-equal-but-not-identical:" + tag, {"value": gs.show_val(val), "detail": detail})
            elif doc:
                sig = self.signature(ver, val, symptom)
                self.groups.setdefault(sig, []).append((st, form, symptom, detail))
            elif st["expect"] == "na":
                self.observe("no-form-in-spec:driver-%s:%s" % (symptom.split(":")[0], tag),
                             {"value": gs.show_val(val), "detail": detail})
            else:
                self.observe("not-documented-as-supported:%s:%s" % (symptom, tag), {"value": gs.show_val(val), "detail": detail})
            if text is not None:
                wires[text] = form
        # the wire form against the specification's tree
        for text in wires:
            try:
                json.dumps(json.loads(text), allow_nan=False)
            except ValueError:
                self.observe("wire-not-rfc8259-json:v%d:%s" % (ver, kind), {"value": gs.show_val(val), "wire": text[:200]})
            wire = gs.canon(gs.to_tree(json.loads(text)))
            if spec_tree is None:
                c["no_spec_form"] += 1
                if kind in gs.CONTAINERS:
                    continue                   # (a map with non-text keys squeezed into a JSON object: seen in the round trip)
            elif wire == spec_tree:
                c["wire_identical"] += 1
                continue
            else:
                c["wire_differs"] += 1
            key = json.dumps([ver, val, wire])
            if key not in self.judge:
                self.judge[key] = {"ver": ver, "val": val, "wire": wire}
                self.judge_meta[key] = (ver, kind, gs.show_val(val), text[:300],
                                        gs.show_tree(st["tree"])[:300] if spec_tree is not None else None)
        # the real reader on the specification's forms
        if st["expect"] == "ok":
            want = gs.expected_python(drv, norm)
            for label, tree in [("canonical", st["tree"])] + [("alternative", a) for a in st["alts"]]:
                c["reader_runs"] += 1
                evals += 1
                text = gs.tree_json(tree)
                try:
                    back = drv.read(ver, text, gs.shape_of(val))
                    r = "ok" if gs.equal(back, want) else "value-differs"
                    detail = "" if r == "ok" else "read as %r, expected %r" % (back, want)
                except Exception as e:                      # noqa
                    r, detail = "raises:%s" % type(e).__name__, str(e)[:200]
                if r == "ok":
                    c["reader_ok"] += 1
                else:
                    what = kind if kind not in gs.CONTAINERS else "container"
                    tagname = tree[1] if tree[0] == "t" else "untyped"
                    self.observe("reader-on-spec-form:%s:%s:v%d:%s:%s" % (label, r, ver, what, tagname),
                                 {"value": gs.show_val(val), "spec_form": text[:300], "detail": detail})
        return evals

    # ---------------------------------------------------------------- code -> spec
    def judge_wire(self, ctx, extra=()):
        """TLC reads every real wire form that differs from the specification's with the specification's reader.
        `extra`: records with a known verdict (binding self-test) -> list of their verdicts"""
        keys = sorted(self.judge)
        recs = [self.judge[k] for k in keys] + [e for e in extra]
        if not recs:
            return []
        path = os.path.join(ctx.scratch, "wire_records.json")
        with open(path, "w") as f:
            json.dump(recs, f)
        cfg = tlc.write_cfg(os.path.join(ctx.scratch, "Trace_GraphSON.cfg"), init="TraceInit", next="TraceNext",
                            constants=constants(True, []), deadlock=False)
        res, states = gs.enumerate_fast(tlc, "Trace_GraphSON", cfg, ctx.scratch, timeout=1200, env=dict(JVM, TRACE_FILE=path),
                                        workers=4)
        ctx.add_tlc(res, "wire forms read by the specification's reader")
        os.unlink(path)
        verdict = {s["rec"]: s["expect"] for s in states}
        if sorted(verdict) != list(range(1, len(recs) + 1)):
            raise tlc.MachineryError("Trace_GraphSON judged %d of %d records" % (len(verdict), len(recs)))
        tally = {}
        for i, k in enumerate(keys):
            v = verdict[i + 1]
            ver, kind, shown, text, spec = self.judge_meta[k]
            name = v[0] if v[0] != "rejected" else "rejected(%s)" % v[1]
            tally[v[0]] = tally.get(v[0], 0) + 1
            if spec is None:
                okey = "wire-form-where-spec-has-none:%s:v%d:%s" % (name, ver, kind)
            elif v[0] == "same":
                okey = "wire-form-differs-but-denotes-the-same-value:v%d:%s" % (ver, kind)
            else:
                okey = "wire-form-denotes-%s:v%d:%s" % ("another-value" if v[0] == "different" else name, ver, kind)
            self.observe(okey, {"value": shown, "driver_wire": text, "spec_form": spec})
        ctx.traces_validated += len(keys)
        ctx.note("wire_forms_read_by_spec_reader", dict(tally, total=len(keys)))
        return [verdict[len(keys) + j + 1] for j in range(len(extra))]


def replay_case(ctx, drv, obj):
    ver, val, norm = obj["ver"], gs.untuple(obj["val"]), gs.untuple(obj["norm"])
    bad = []
    for form in range(gs.forms_of(val)):
        symptom, detail, text = roundtrip(drv, ver, val, norm, form)
        print("GraphSON %d  %s  form %d: %s %s" % (ver, gs.show_val(val), form, symptom, detail))
        if symptom not in ("ok", "equal-not-identical", "skipped"):
            bad.append(symptom)
    return bad
