"""C32 - concurrent execution returns one ordered result per statement.

Spec: spec/Concurrent.tla (submission loop, chains of synchronous completions, later completions on another
      thread, the caller waiting on the condition, generator consumption, the async future).
TLC : exhaustive over n <= MaxN statements x concurrency 1..n x 5 behaviours per statement x fail-fast x
      {list, generator, future} x all interleavings; invariants ConcurrencyBound, InOrder, OnePerStatement,
      FailFastFirst, FutureAtMostOnce, FutureCompleted; deadlock freedom (= no lost wake-up) and termination.
Bind: every edge of the state graph is replayed into the real cassandra.concurrent over a fake session with
      controllable futures, the caller and the completing threads being DetSched logical threads and the
      executor's Condition a DCondition; events and projected state compared at the end of every lock section.
"""
import os

from harness import tlc
from harness.tlaval import to_py
from harness.replay import concurrent as rc
from harness.replay._walks import covering_walks

META = {
    "property_id": "C32",
    "engine": "Concurrent",
    "technique": "TLA+ spec of execute_concurrent / execute_concurrent_async checked exhaustively by TLC; every edge of the "
                 "state graph replayed into the real module (fake session, controllable futures, DetSched threads, DCondition)",
    "level": "model_checking",
    "level_text": "TLC explores every configuration (statement count, concurrency, per-statement behaviour: execute_async "
                  "raises / future already complete ok|error / completes later ok|error, fail-fast flag, list | generator | "
                  "future variant) and every interleaving of completions with the caller, and checks one result per "
                  "statement in input order, the concurrency bound, first-failure semantics, exactly-once completion of the "
                  "async future, deadlock freedom and termination. Every edge of that graph is replayed on the real code; "
                  "the calls made to the session, the results / exception handed to the caller, the peak in-flight count and "
                  "every completion attempt of the future must match the specification.",
    "level_note": "Trusted: TLC; the fake session/future (ResponseFuture.add_callbacks contract: immediate invocation when "
                  "done); DetSched + DCondition as a model of threading.Condition; lock sections are atomic (switches only "
                  "at acquire/release/wait); small scope (n <= 3 replayed, n <= 4 model checked).",
    "design_ref": "5.6 C32",
}

INV = ["TypeOK", "ConcurrencyBound", "InOrder", "OnePerStatement", "FailFastFirst", "FutureAtMostOnce", "FutureCompleted",
       "NotStuck", "EveryStatementAnswered"]
WITNESSES = ["SyncChain", "WaitAndWake", "FailFastWhileRunning", "FutureByCaller", "GenWaits", "FullConcurrency",
             "ConsumerBeforeLoopReturn", "DeferredDelivered"]
ALL_BEHS = {"raise", "done_ok", "done_err", "later_ok", "later_err"}
ACTIONS = ("EmptyCall", "BeginSubmit", "Start", "Put", "Ret", "FutCheck", "LoopReturn", "CompleteAny", "RunDeferredAny", "Collect", "Wake", "Consume", "GWake")


def consts(maxn):
    # RecChoices: _ConcurrentExecutor.max_error_recursion - 100 as shipped (never reached here) and shrunk to 2
    return {"MaxN": maxn, "RecChoices": {2, 100}, "Variants": {"list", "gen", "future"}, "Behs": ALL_BEHS}


def spec_violation(ctx, res, label):
    ctx.violation("TLC: %s on Concurrent.tla (%s)" % (res.invariant or "deadlock", label),
                  replay={"trace": [dict(s["act"]) for _, s in res.trace() if "act" in s]},
                  signature="spec:%s" % (res.invariant or "deadlock"))


def run(ctx):
    # ---- the specification, exhaustively (deadlock checking on: a stuck non-terminal state is a lost wake-up)
    big = 3 if ctx.quick else 4
    # NextW = Next plus stuttering witness probes (vacuity); deadlock freedom is the invariant NotStuck
    cfg = tlc.write_cfg(os.path.join(ctx.scratch, "big.cfg"), next="NextW", constants=consts(big), invariants=INV,
                        deadlock=False)
    res = tlc.check_model("Concurrent", cfg, ctx.scratch, coverage=True, timeout=3000)
    ctx.add_tlc(res, "exhaustive MaxN=%d" % big)
    if res.violation:
        spec_violation(ctx, res, "MaxN=%d" % big)
        return
    cov = res.coverage()
    zero = [a for a in ACTIONS if a not in cov or cov[a][1] == 0]
    if zero:
        raise tlc.MachineryError("actions never taken: %s" % zero)
    unreached = [w for w in WITNESSES if cov.get("W_" + w, (0, 0))[1] == 0]
    if unreached:
        raise tlc.MachineryError("vacuity witnesses not reachable: %s" % unreached)
    ctx.note("vacuity_witnesses_reached", len(WITNESSES))
    # ---- spec -> code: every edge of the state graph
    small = 2 if ctx.quick else 3
    # the same run checks deadlock freedom (TLC's own deadlock check: every non-Terminal state has a successor) and, in
    # the thorough tier, termination (<>Terminal under weak fairness of Next); the graph is acyclic apart from the
    # Terminal self-loops, so deadlock freedom already implies termination - the temporal check confirms it
    live = {} if ctx.quick else {"spec": "FairSpec", "properties": ["Terminates"]}
    gcfg = tlc.write_cfg(os.path.join(ctx.scratch, "graph.cfg"), constants=consts(small), invariants=INV, **live)
    gres, nodes, edges, init = tlc.state_graph("Concurrent", gcfg, ctx.scratch, timeout=1800)
    ctx.add_tlc(gres, "graph%s MaxN=%d" % ("" if ctx.quick else " + termination", small))
    if gres.violation:
        spec_violation(ctx, gres, "MaxN=%d" % small)
        return
    walks = covering_walks(edges, init)
    covered = set()
    for w in walks:
        covered.update(zip(w, w[1:]))
    ctx.note("graph_edges", len(edges))
    ctx.note("graph_edges_replayed", len(covered))
    ctx.note("exhaustive", len(covered) == len(set((s, d) for s, d, _ in edges)))
    behaviours = [[nodes[x] for x in w] for w in walks]
    if ctx.quick:
        # plus random behaviours of the larger instance
        scfg = tlc.write_cfg(os.path.join(ctx.scratch, "sim.cfg"), constants=consts(3), invariants=INV)
        sres, sims = tlc.simulate("Concurrent", scfg, ctx.scratch, num=100, depth=30, seed=ctx.seed, timeout=300)
        ctx.note("simulated_behaviours_MaxN3", len(sims))
        behaviours += sims

    replayed = clean = sections = 0
    seen = {}
    selftest = None
    for states in behaviours:
        d, ncmp = rc.replay(states)
        replayed += 1
        sections += ncmp
        cfgd = rc.config_of(states[0])
        acts = [dict(s["act"]) for k, s in enumerate(states) if k > 0 and s != states[k - 1]]
        if d is None:
            clean += 1
            if selftest is None and cfgd["variant"] == "list" and ncmp >= 3:
                selftest = states
        kinds = set(cfgd["beh"])
        if cfgd["n"] >= 2 and len(kinds) >= 2 and any(a["name"] in ("Wake", "GWake") for a in acts):
            ctx.nontrivial((cfgd["n"], cfgd["c"], cfgd["rec"], cfgd["failFast"], cfgd["variant"], tuple(cfgd["beh"]),
                            tuple(a["i"] for a in acts if a["name"] == "Complete")))
        if replayed % 300 == 1:
            ctx.sample({"direction": "spec->code", "config": cfgd, "actions": ["%s(%d)" % (a["name"], a["i"]) for a in acts]})
        if d:
            sig = d["signature"]
            seen[sig] = seen.get(sig, 0) + 1
            if seen[sig] == 1:
                ctx.violation("replay diverges at step %d (%s) for %s: %s; future completion attempts: %s"
                              % (d["step"], d["action"], d["config"], d["diff"], d.get("attempts")),
                              replay={"states": [to_py(s) for s in states[:d["step"] + 1]], "divergence": d}, signature=sig)
    ctx.traces_validated += clean
    ctx.note("behaviours_replayed", replayed)
    ctx.note("behaviours_clean", clean)
    ctx.note("sections_compared", sections)
    ctx.note("divergences_by_signature", seen)
    ctx.evaluations = replayed
    # binding self-test: a corrupted expectation must be noticed
    if selftest is None:
        raise tlc.MachineryError("no list-variant behaviour replayed cleanly: nothing to self-test the binding with")
    k = max(i for i, s in enumerate(selftest) if i > 0 and s["holder"] == "none" and s != selftest[i - 1])
    d, _ = rc.replay(selftest, corrupt=(k, "peak", selftest[k]["peak"] + 1))
    if not d or d["step"] != k:
        raise tlc.MachineryError("binding self-test failed: corrupted expectation not detected")
    ctx.note("binding_selftest", {"corrupted_state_detected": 1})
    ctx.note("rule", "non-trivial = at least 2 statements with at least 2 different behaviours and a caller that had to wait "
                     "and be woken; distinct by configuration and completion order")
    ctx.assumptions += [
        "fake futures honour ResponseFuture.add_callbacks (immediate invocation when already done)",
        "DCondition/DRLock model threading.Condition over an RLock; thread switches only at acquire/release/wait",
        "a single completing thread at a time (the event loop)",
        "small scope: n <= %d replayed exhaustively, n <= %d model checked" % (small, big),
    ]


def replay(ctx, obj):
    states = obj["states"]
    for s in states[1:]:
        print("->", s["act"])
    d, n = rc.replay(states)
    print("divergence:", d)
    if d:
        ctx.violation("replayed: still diverges: %s" % d["diff"], replay=obj, signature=d["signature"])
