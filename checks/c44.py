"""C44 - heartbeats detect dead idle connections without leaking capacity.

Spec: spec/Heartbeat.tla - rounds of ConnectionHeartbeat.run over the connections of the holders (HostConnection
      pools, control connection): send phase, wait phase, fail phase, one action per loop body, interleaved with the
      event loop delivering the answer to the OPTIONS request (SUPPORTED, error reply, transport error, close) or
      nothing (timeout); per connection idle/busy, healthy/defunct/closed, in_flight 0..max (at capacity included),
      socket writable or stuck (send_msg raises ConnectionBusy, which is not a ConnectionException);
      traffic between rounds delivered through the real process_msg (request/response, late answer to an orphaned
      stream, pushed event) and deaths between rounds.
TLC : invariants AtMostOneHeartbeat, RoundPost (idle+healthy -> exactly one OPTIONS; busy -> none, idle flag reset;
      success -> in_flight and available stream ids as before; failure/silence -> defunct and owner notified exactly
      once; dead -> handed back once), NoLeak (a live connection between rounds always has its initial capacity).
Bind: spec -> code: walks covering EVERY edge of the state graph are replayed on the real ConnectionHeartbeat.run /
      HeartbeatFuture over real HostConnection pools and the real ControlConnection of a simulated cluster
      (harness/replay/heartbeat.py); after each action the real connections must equal the spec state
      (OPTIONS frames seen by the node, return_connection calls, defunct/closed, idle flag, in_flight, request_ids).
"""
import os
from collections import deque

from harness import tlc

META = {
    "property_id": "C44",
    "engine": "Heartbeat",
    "technique": "TLA+ model of heartbeat rounds checked by TLC; every edge of the state graph replayed on the real "
                 "ConnectionHeartbeat.run over real pools and control connection of a simulated cluster",
    "level": "model_checking",
    "level_text": "TLC explores every combination of connection states (idle/busy, healthy/defunct/closed, in_flight "
                  "0..capacity) for the pools and the control connection, every answer to the heartbeat (SUPPORTED, error, "
                  "transport error, close, silence) at every point between sending and waiting, over repeated rounds with "
                  "traffic and deaths in between, and checks the statement's clauses as invariants. Walks covering every "
                  "transition of the graph are executed on the real run() loop (one iteration, no thread) and compared "
                  "state by state, so the checked model is the behaviour of the code over that bounded domain.",
    "level_note": "Trusted: TLC, the invariants as transcription of the statement, SimConnection/FakeNode/SimCluster doubles, "
                  "the scripted _shutdown_event (run() executes exactly one loop iteration and yields between loop bodies). "
                  "Bounds: max_request_id scaled to 2; 1-2 pools + control connection; 1-3 rounds; the larger models are "
                  "checked by TLC only (not replayed). An idle connection without a free stream id gets no OPTIONS and is "
                  "treated as a failed heartbeat (that is what the code does; the statement does not say).",
    "design_ref": "5.2 C44",
}

INVARIANTS = ["TypeOK", "AtMostOneHeartbeat", "RoundPost", "NoLeak"]
ACTIONS = ["StartRound", "SendStep", "EndSend", "WaitStep", "EndWait", "FailStep", "EndRound", "Answer", "Traffic"]
WITNESSES = ["Witness_SuccessAtLevel", "Witness_Timeout", "Witness_Full", "Witness_SecondRoundOk", "Witness_LateAnswer",
             "Witness_StuckAmongHealthy", "Witness_LateTraffic", "Witness_EventTraffic"]
MAX_REPORT = 10


def cover_walks(nodes, edges, init, max_len=400):
    """Paths from an initial state that together traverse every edge (BFS prefix to an uncovered edge, then greedy)."""
    succ = {}
    for s, d, _ in edges:
        succ.setdefault(s, []).append(d)
    parent = {}
    dq = deque()
    for i in init:
        parent[i] = None
        dq.append(i)
    while dq:
        u = dq.popleft()
        for v in succ.get(u, ()):
            if v not in parent:
                parent[v] = u
                dq.append(v)

    def prefix(n):
        p = []
        while n is not None:
            p.append(n)
            n = parent[n]
        return p[::-1]
    unc = dict.fromkeys((s, d) for s, d, _ in edges if s in parent)
    walks = []
    while unc:
        s, d = next(iter(unc))
        w = prefix(s) + [d]
        for e in zip(w, w[1:]):
            unc.pop(e, None)
        cur = d
        while len(w) < max_len:
            nxt = [v for v in succ.get(cur, ()) if (cur, v) in unc]
            if not nxt:
                break
            unc.pop((cur, nxt[0]))
            w.append(nxt[0])
            cur = nxt[0]
        walks.append(w)
    return walks


def signature(d):
    a = d["action"]
    fields = sorted(set(k.split(".", 1)[-1] for k in d["diff"]))
    return "replay:%s%s:%s" % (a["name"], ("(%s)" % a["kind"]) if a.get("kind") else "", ",".join(fields))


def describe(consts, states, upto=None):
    from harness.replay import heartbeat as hb
    acts = hb.actions_of(states)
    return {"constants": dict(consts, Levels=sorted(consts["Levels"]), TrafficKinds=sorted(consts["TrafficKinds"])),
            "init": {str(n): dict(r, free=list(r["free"]), orph=list(r["orph"])) for n, r in states[0]["conn"].items()},
            "actions": acts if upto is None else acts[:upto]}


def check_spec(ctx, consts, label, graph):
    cfg = tlc.write_cfg(os.path.join(ctx.scratch, "hb_%s.cfg" % label), constants=consts, invariants=INVARIANTS, deadlock=False)
    if graph:
        res, nodes, edges, init = tlc.state_graph("Heartbeat", cfg, ctx.scratch, coverage=True, timeout=1800)
    else:
        res, nodes, edges, init = tlc.check_model("Heartbeat", cfg, ctx.scratch, timeout=1800), None, None, None
    ctx.add_tlc(res, "exhaustive %s %s" % (label, {k: (sorted(v) if isinstance(v, set) else v) for k, v in consts.items()}))
    if res.violation:
        ctx.violation("TLC: invariant %s violated on Heartbeat.tla (%s)" % (res.invariant, label),
                      replay={"trace": [dict(s.get("act", {})) for _, s in res.trace()]}, signature="spec:%s" % res.invariant)
        return None
    if graph:
        cov = res.coverage()
        want = ACTIONS + (["Die"] if consts["Rounds"] > 1 else [])
        zero = [a for a in want if max(cov.get(a, (0, 0))[1], cov.get("Any" + a, (0, 0))[1]) == 0]
        if zero:
            raise tlc.MachineryError("actions never taken in model %s: %s" % (label, zero))
    return nodes, edges, init


def replay_graph(ctx, consts, label, nodes, edges, init):
    from harness.replay import heartbeat as hb
    walks = cover_walks(nodes, edges, init)
    covered = set()
    reported = 0
    for i, w in enumerate(walks):
        states = [nodes[n] for n in w]
        d = hb.replay(consts, states)
        covered.update(zip(w, w[1:]))
        acts = hb.actions_of(states)
        if any(a["name"] == "Answer" or (a["name"] == "WaitStep" and a["kind"] in ("sent", "full")) for a in acts) \
                or any(not r["writable"] for r in states[0]["conn"].values()):
            ctx.nontrivial((label, i))
        if i % 3001 == 7:
            ctx.sample(dict(describe(consts, states), direction="spec->code"))
        if d:
            if d.get("machinery"):
                raise tlc.MachineryError("cannot establish the initial state on the real objects: %s" % (d["diff"],))
            reported += 1
            if reported <= MAX_REPORT:
                ctx.violation("real heartbeat round diverges from Heartbeat.tla at step %d (%s): %s" % (d["step"], d["action"], d["diff"]),
                              replay=dict(describe(consts, states, d["step"]), divergence=d), signature=signature(d))
    all_edges = set((s, d) for s, d, _ in edges)
    if covered != all_edges:
        raise tlc.MachineryError("replay walks cover %d of %d edges" % (len(covered), len(all_edges)))
    ctx.traces_validated += len(walks)
    ctx.count("behaviours_replayed", len(walks))
    ctx.count("graph_edges_replayed", len(covered))
    if reported > MAX_REPORT:
        print("... %d diverging behaviours in model %s" % (reported, label))
    return walks


def run(ctx):
    from harness.replay import heartbeat as hb
    base = {"MaxId": 2, "InitFree": 1}
    if ctx.quick:
        replayed = [("1pool-1round", dict(base, NPools=1, Rounds=1, Levels={0, 1, 2}, TrafficKinds={"late", "event"})),
                    ("1pool-2rounds", dict(base, NPools=1, Rounds=2, Levels={1}, TrafficKinds={"reqresp"}))]
        tlc_only = [("2pools-1round", dict(base, NPools=2, Rounds=1, Levels={0, 2}, TrafficKinds={"late"}))]
    else:
        replayed = [("1pool-1round", dict(base, NPools=1, Rounds=1, Levels={0, 1, 2}, TrafficKinds={"reqresp", "late", "event"})),
                    ("1pool-2rounds", dict(base, NPools=1, Rounds=2, Levels={0, 1, 2}, TrafficKinds={"reqresp"})),
                    ("2pools-1round", dict(base, NPools=2, Rounds=1, Levels={0, 2}, TrafficKinds={"late"}))]
        tlc_only = [("1pool-3rounds", dict(base, NPools=1, Rounds=3, Levels={0, 1, 2}, TrafficKinds={"reqresp"})),
                    ("1pool-2rounds-late", dict(base, NPools=1, Rounds=2, Levels={1, 2}, TrafficKinds={"late", "event"})),
                    ("2pools-2rounds", dict(base, NPools=2, Rounds=2, Levels={0, 2}, TrafficKinds={"reqresp"}))]
    ctx.note("models_replayed", [l for l, _ in replayed])
    ctx.note("models_tlc_only", [l for l, _ in tlc_only])

    wconsts = dict(base, NPools=1, Rounds=2, Levels={1, 2}, TrafficKinds={"reqresp", "late", "event"})     # small model: reachable there => reachable in the larger ones
    for w in WITNESSES:
        wcfg = tlc.write_cfg(os.path.join(ctx.scratch, w + ".cfg"), constants=wconsts, invariants=[w], deadlock=False)
        wres = tlc.check_model("Heartbeat", wcfg, ctx.scratch, timeout=600)
        if wres.invariant != w:
            raise tlc.MachineryError("vacuity witness %s not reachable" % w)
    ctx.note("vacuity_witnesses_reached", len(WITNESSES))

    first = None
    for label, consts in replayed:
        g = check_spec(ctx, consts, label, True)
        if g is None:
            return
        nodes, edges, init = g
        walks = replay_graph(ctx, consts, label, nodes, edges, init)
        if first is None:
            first = (consts, nodes, walks)
    ctx.note("exhaustive", True)

    # binding self-test: corrupted expectations / a dropped event-loop action must be noticed
    if ctx.violations == 0:
        consts, nodes, walks = first
        pick = None
        for w in walks:
            states = [nodes[n] for n in w]
            acts = hb.actions_of(states)
            if any(a["name"] == "Answer" and a["kind"] == "ok" for a in acts) and any(a["name"] == "FailStep" for a in acts) \
                    and any(a["name"] == "EndRound" for a in acts):
                pick = states
                break
        if pick is None:
            raise tlc.MachineryError("binding self-test: no suitable behaviour")
        acts = hb.actions_of(pick)
        i_ans = next(i for i, a in enumerate(acts) if a["name"] == "Answer" and a["kind"] == "ok")
        i_fail = next(i for i, a in enumerate(acts) if a["name"] == "FailStep")
        c_fail = acts[i_fail]["c"]
        bad1 = list(pick)
        s = dict(bad1[i_fail + 1])
        s["retCnt"] = dict(s["retCnt"], **{c_fail: 0})
        bad1[i_fail + 1] = s
        bad2 = pick[:i_ans + 1] + pick[i_ans + 2:]                # the answer never arrives
        c_ans = acts[i_ans]["c"]
        bad3 = list(pick)
        i_end = next(i for i, a in enumerate(acts) if a["name"] == "EndRound")
        s = dict(bad3[i_end + 1])
        conn = dict(s["conn"])
        if conn[c_ans]["alive"] == "ok":
            conn[c_ans] = dict(conn[c_ans], inflight=conn[c_ans]["inflight"] + 1)
        else:
            conn[c_ans] = dict(conn[c_ans], held=not conn[c_ans]["held"])
        s["conn"] = conn
        bad3[i_end + 1] = s
        got = [hb.replay(consts, b) for b in (bad1, bad2, bad3)]
        if hb.replay(consts, pick) is not None or not all(got):
            raise tlc.MachineryError("binding self-test failed: %s" % ([bool(g) for g in got],))
        ctx.note("binding_selftest", {"corrupted_counter_rejected": 1, "dropped_answer_rejected": 1, "corrupted_capacity_rejected": 1})
    else:
        ctx.note("binding_selftest", "skipped: divergences already reported")

    for label, consts in tlc_only:
        if check_spec(ctx, consts, label, False) is None:
            return
    ctx.evaluations = ctx.traces_validated
    ctx.assumptions += [
        "max_request_id scaled down to 2 on the instances (the loop and HeartbeatFuture only compare in_flight with it)",
        "the event loop's processing of a response is atomic w.r.t. the heartbeat thread's loop bodies (each takes the connection lock)",
        "executor / scheduler tasks triggered by owner.return_connection (reconnects, pool replacement) are not run between rounds",
        "an idle connection at capacity, or whose socket is not writable (ConnectionBusy), cannot carry a heartbeat: the code fails it "
        "(defunct + owner notified); accepted as 'heartbeat fails'",
        "1-2 pools (one connection each) and the control connection; larger models checked by TLC only",
    ]


def replay(ctx, obj):
    from harness.replay import heartbeat as hb
    consts = obj["constants"]
    h = hb.HbHarness(consts["NPools"], consts["MaxId"], consts["InitFree"])
    h.setup(obj["init"])
    print("init", h.project())
    acts = obj["actions"] + ([obj["divergence"]["action"]] if obj.get("divergence") else [])
    for a in acts:
        try:
            got, want = h.do(a, {"pre_conn": _pre(h)})
        except Exception as exc:
            print("->", a, "raised", repr(exc))
            break
        print("->", a, "log:", got)
        print("   ", h.project())
    if obj.get("divergence"):
        print("expected (spec):", obj["divergence"]["diff"])
        seen = h.project()
        still = []
        for k, v in obj["divergence"]["diff"].items():
            if "." in k:
                n, f = k.split(".", 1)
                if seen.get(n, {}).get(f) != v["spec"]:
                    still.append(k)
            else:
                still.append(k)
        if still:
            ctx.violation("replayed: still differs in %s" % still, replay=obj)


def _pre(h):
    """What SendStep needs to know about the connection before the step, taken from the real objects."""
    out = {}
    for n, c in h.conns.items():
        alive = "defunct" if c.is_defunct else ("closed" if c.is_closed else "ok")
        out[n] = {"alive": alive, "idle": not c.msg_received}
    return out
