"""C04 - response frames decode to exactly what the server sent.

Spec: spec/WireResponses.tla (+ spec/WirePrims.tla): reference generator written from the protocol documents; every
      state is one well-formed response body (family, protocol version, header flags, opcode, bytes) together with the
      abstract content the server put in (message fields, and the frame extras tracing id / warnings / custom payload).
TLC : enumerates response kinds x versions x flag subsets x small value alphabets as states; invariants on the
      specification itself: extras first and in the documented order, header flags = extras present, RESULT kind /
      ERROR code where the documents put them, flag combinations the documents exclude never generated.
Bind: every state is fed to the real ProtocolHandler.decode_message; a projection of the decoded message (class,
      attributes; for errors also to_exception() class and fields; for rows column names / types / tables, parsed rows,
      paging state, metadata id, ...) must equal the specification's abstract content.
"""
import hashlib
import json
import os

from harness import tlc
from harness.replay import wire_bind as wb

META = {
    "property_id": "C04",
    "engine": "WireResponses",
    "technique": "TLA+ reference generator of native protocol response bodies with their abstract content; TLC enumerates "
                 "kinds x versions x flag subsets; every enumerated body is decoded by the real decode_message and the "
                 "decoded message is compared field by field",
    "level": "model_checking",
    "level_text": "TLC exhaustively enumerates every response kind (RESULT void / rows / set-keyspace / prepared / "
                  "schema-change, every ERROR code with its tail, EVENT, SUPPORTED, READY, AUTHENTICATE, AUTH_CHALLENGE, "
                  "AUTH_SUCCESS) x protocol version (1-6, DSE_V1, DSE_V2) x subsets of {tracing id, warnings, custom "
                  "payload} x metadata flag subsets x a tour of column type trees, with 2-element value alphabets, "
                  "checks the generator's own consistency, and every generated body is decoded by the real driver and "
                  "must yield exactly the generated content (and the documented exception with the same fields); "
                  "sequences of rows responses whose same-named UDTs change definition (flat, nested in a UDT, inside "
                  "list / tuple / map / set) are decoded in order by one process, each against its own expectation "
                  "(field names and values). "
                  "Exhaustive over the enumerated domain.",
    "level_note": "Trusted: TLC; the transcription of native_protocol_v1-v5.spec into WireResponses.tla; v6 = v5; DSE "
                  "layouts as the driver documents them (continuous paging only without No_metadata / new metadata id); "
                  "the projection in harness/replay/wire_bind.py (error class / exception / attribute names are the "
                  "driver's documented API). Cell values are limited to int / varchar / null (value codecs are C01/C02); "
                  "compressed bodies and bodies with undocumented trailing fields are not generated, except the v5 "
                  "Write_timeout <contentions>, for which the driver documents no attribute and none is compared.",
    "design_ref": "5.7 C04",
}

INVARIANTS = ["BytesOK", "FlagsOK", "PrefixOK", "KindOK", "CodeOK", "RowsFlagsOK", "HeldOK"]
ALL = ["SIMPLE", "ERROR", "EVENT", "ROWS", "PREPARED", "EVOLVE"]
JVM = {"JAVA_TOOL_OPTIONS": "-XX:TieredStopAtLevel=1 -XX:ParallelGCThreads=2 -Xms1g"}      # short runs: no C2 warm-up
WITNESSES = ["Witness_StaleHeld", "Witness_Evolution", "Witness_Warnings", "Witness_ReasonMap", "Witness_MetadataId", "Witness_ContPaging", "Witness_PkIndexes"]


def runs(ctx):
    if ctx.quick:
        return [("all families; frame extras: all 8 subsets (SIMPLE, ERROR, EVENT) / 4 of 8 (ROWS, PREPARED); type tour once",
                 dict(Families=set(ALL), FullFx={"SIMPLE", "ERROR", "EVENT"}, Small=True))]
    return [("all families x all 8 subsets of frame extras; type tour with both table-spec forms under every subset",
             dict(Families=set(ALL), FullFx=set(ALL), Small=False))]


def case_key(st):
    return hashlib.blake2b(json.dumps([st["c"], st["fx"]], sort_keys=True).encode(), digest_size=10).hexdigest()   # c includes held


def family_of(st):
    exp = st["exp"]
    if st["c"].get("scn"):
        return "RESULT:rows(type evolution sequence)"
    if exp["cls"] == "RESULT":
        return "RESULT:rows" if exp["kind"] == "rows" else "RESULT:" + exp["kind"]
    return exp["cls"]


def nontrivial(st):
    """anything beyond a bare fixed-layout body: a frame extra, a code-specific tail, metadata, an event payload"""
    exp = st["exp"]
    return bool(st["c"]["flags"]) or exp["cls"] in ("ERROR", "EVENT", "SUPPORTED") or exp.get("kind") in ("rows", "prepared", "schema_change")


def corrupt(st):
    """a state whose expectation no longer matches its bytes (binding self-test)"""
    bad = json.loads(json.dumps(st))
    exp = bad["exp"]
    if exp["cls"] == "ERROR":
        exp["msg"] = exp["msg"] + [33]
    elif exp.get("kind") == "rows":
        exp["cols"][0]["name"] = exp["cols"][0]["name"] + [33]
    else:
        exp["change"] = exp["change"] + [33]
    return bad


def run(ctx):
    groups = {}
    per_family = {}
    probes = {}
    sequences = {}         # (pv, scenario) -> responses decoded so far, in order
    undocumented = 0
    for label, consts in runs(ctx):
        cfg = tlc.write_cfg(os.path.join(ctx.scratch, "WireResponses.cfg"), constants=consts, invariants=INVARIANTS, deadlock=False)
        res, states = wb.enumerate_fast(tlc, "WireResponses", cfg, ctx.scratch, timeout=600 if ctx.quick else 3000, env=JVM)
        ctx.add_tlc(res, label)
        if res.violation:
            ctx.violation("TLC: invariant %s violated in WireResponses.tla (the reference generator itself is inconsistent)"
                          % res.invariant, replay={"trace": [s for _, s in res.trace()]}, signature="spec:" + str(res.invariant))
            return
        # responses that form a sequence (EVOLVE) are decoded in the order of the sequence, scenario by scenario;
        # all cases are decoded by this one process, so whatever the driver caches across responses is in play
        states.sort(key=lambda s: (s["c"].get("scn", 0) > 0, s["c"]["pv"], s["c"].get("scn", 0), s["c"].get("pos", 0)))
        for st in states:
            if st["phase"] != "case":
                continue
            fam = family_of(st)
            per_family[fam] = per_family.get(fam, 0) + 1
            keys, summary = wb.judge_response(st)
            if st["c"].get("scn"):
                sequences.setdefault((st["c"]["pv"], st["c"]["scn"]), []).append(st)
            ctx.evaluations += 1
            ctx.traces_validated += 1
            if nontrivial(st):
                ctx.nontrivial(case_key(st))
            if st["exp"]["cls"] == "ERROR" and any(n in wb.UNDOCUMENTED_FIELDS for n, _ in st["exp"]["info"]):
                undocumented += 1
            if ctx.evaluations % 2503 == 1:
                ctx.sample({"pv": st["c"]["pv"], "flags": st["c"]["flags"], "opcode": st["c"]["opcode"],
                            "body": bytes(st["c"]["body"]).hex(), "frame_extras": st["fx"], "expected": st["exp"]})
            if keys is None and fam not in probes and fam in ("ERROR", "RESULT:rows", "EVENT"):
                probes[fam] = st
            if keys:
                for k in keys:
                    groups.setdefault(k, []).append((st, summary))

    ctx.note("exhaustive", True)
    ctx.note("cases_per_family", per_family)
    ctx.note("cases_with_field_the_driver_documents_no_attribute_for", undocumented)
    ctx.note("rule", "one case = one TLC state (pv, header flags, opcode, body bytes); distinct by those; non-trivial = "
                     "carries a frame extra, a code-specific error tail, an event, SUPPORTED options, or result metadata")

    # vacuity: every family produced cases; witnesses reached in TLC
    wanted = ["READY", "AUTHENTICATE", "AUTH_CHALLENGE", "AUTH_SUCCESS", "SUPPORTED", "ERROR", "EVENT", "RESULT:void",
              "RESULT:rows", "RESULT:set_keyspace", "RESULT:prepared", "RESULT:schema_change",
              "RESULT:rows(type evolution sequence)"]
    missing = [f for f in wanted if not per_family.get(f)]
    if missing:
        raise tlc.MachineryError("vacuity: no case generated for %s" % missing)
    witnesses = WITNESSES[:1] if ctx.quick else WITNESSES
    wconst = dict(Families={"ERROR", "ROWS", "PREPARED", "EVOLVE"}, FullFx=set(), Small=True)
    for w in witnesses:
        wcfg = tlc.write_cfg(os.path.join(ctx.scratch, w + ".cfg"), constants=wconst, invariants=[w], deadlock=False)
        wres = tlc.check_model("WireResponses", wcfg, ctx.scratch, timeout=600, env=JVM)
        if wres.invariant != w:
            raise tlc.MachineryError("vacuity witness %s was not reached" % w)
    ctx.note("vacuity_witnesses_reached", len(witnesses))

    # binding self-test: a corrupted expectation must be noticed
    rejected = 0
    for fam, st in sorted(probes.items()):
        k, _ = wb.judge_response(corrupt(st))
        if not k:
            raise tlc.MachineryError("binding self-test failed: corrupted %s expectation not detected" % fam)
        rejected += 1
    if rejected < 2:
        raise tlc.MachineryError("binding self-test could not run (no probe states)")
    ctx.note("binding_selftest", {"corrupted_rejected": rejected})

    for gkey in sorted(groups):
        members = groups[gkey]
        pvs = sorted({st["c"]["pv"] for st, _ in members})
        st, summary = min(members, key=lambda m: (m[0]["c"]["flags"], len(m[0]["c"]["body"]), m[0]["c"]["pv"]))
        sig = ":".join(gkey) + "@" + wb.pv_set(pvs)
        c = st["c"]
        if gkey[0] == "raised":
            what = ("decode_message raises %s for a well-formed %s body on %s; %d cases, smallest: pv=%s flags=%#x opcode=%#x "
                    "body=%s expected content=%s (%s)" % (gkey[2], gkey[1], wb.pv_set(pvs), len(members), c["pv"], c["flags"],
                                                         c["opcode"], bytes(c["body"]).hex(), json.dumps(st["exp"]), summary.get("text")))
        else:
            field = gkey[2].split(":")[0]
            what = ("%s decoded with a wrong %s on %s; %d cases, smallest: pv=%s flags=%#x opcode=%#x body=%s: sent %r, decoded %r"
                    % (gkey[1], gkey[2], wb.pv_set(pvs), len(members), c["pv"], c["flags"], c["opcode"], bytes(c["body"]).hex(),
                       summary.get("want", {}).get(field), summary.get("have", {}).get(field, summary)))
        rep = {"state": st, "cases": len(members), "versions": pvs}
        if c.get("scn"):       # the responses decoded before it in its sequence are part of the failing input
            rep["sequence"] = [x for x in sequences[(c["pv"], c["scn"])] if x["c"]["pos"] <= c["pos"]]
            what += "; decoded after %d earlier response(s) of the same sequence carrying other definitions of the same-named type" % (len(rep["sequence"]) - 1)
        ctx.violation(what, replay=rep, signature=sig)
    ctx.assumptions += ["v6 = v5 layout (no separate document)",
                        "DSE_V1/DSE_V2 layouts as documented by the driver itself; continuous-paging pages only without "
                        "No_metadata / new metadata id",
                        "a null [bytes] token may surface as None or as an empty value",
                        "cell values int / varchar / null only; type trees from a fixed tour (every native id, collections, "
                        "tuple, UDT, custom, nesting one level more)"]


def replay(ctx, obj):
    st = obj["state"]
    for prior in obj.get("sequence", [])[:-1]:            # re-create what the process had decoded before
        k, _ = wb.judge_response(prior)
        print("earlier response pos=%s: %s" % (prior["c"]["pos"], "as sent" if not k else "deviates %s" % (k,)))
    keys, summary = wb.judge_response(st)
    c = st["c"]
    print("case: pv=%s flags=%#x opcode=%#x stream=%s body=%s" % (c["pv"], c["flags"], c["opcode"], c["stream"], bytes(c["body"]).hex()))
    print("sent   : %s extras=%s" % (json.dumps(st["exp"]), json.dumps(st["fx"])))
    print("decoded: %s" % (summary.get("have", summary),))
    if keys:
        ctx.violation("replayed: still deviates: %s" % (keys,), replay=obj)
