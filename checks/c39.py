"""C39 - column encryption is transparent, including for nulls (spec/Encryption.tla).

Spec : Encryption.tla: the data path of a cell  value -Bind-> bound value -Wire-> [bytes] -Decode-> value  with an
       opaque per-column bijection E/D for the cipher; null stays null at every stage.
TLC  : enumerates column layouts (1-3 columns, every subset encrypted) x rows (0-2) of cells {null, v1, v2} x
       positional / by-name binding x result metadata inline / from the prepared statement x protocol versions
       x {the decoding policy is the binding instance, a separate instance with the same keys and default (random)
       IVs, a separate instance with explicit different IVs},
       checks transparency on the definition, dumps the cases.
Bind : every case runs on the real AES256ColumnEncryptionPolicy: a PreparedStatement (decoded PREPARED message ->
       from_message, server-side type of an encrypted column = blob) carrying the policy, BoundStatement.bind per row;
       the bound cells must be null / the plain serialization / for encrypted columns NOT the plain serialization
       but something the policy decrypts back to it; a ROWS body is assembled from the bound cells by the independent
       encoder harness/wire.py and decoded by a protocol handler class built exactly as Session builds it
       (type(..., (ProtocolHandler,), {"column_encryption_policy": policy})); parsed_rows must equal the inputs.
       The compiled (Cython) row parser is exercised only when VERIF_COMPILED_REPO names a built copy of the driver;
       there is none by default (pure-Python tree), which the evidence records.
"""
import json
import os
import random
import subprocess
import sys

if __name__ == "__main__":               # subprocess mode (compiled decoder): make the harness importable
    sys.path.insert(0, os.path.dirname(os.path.dirname(os.path.abspath(__file__))))

from harness import tlc
from harness.pyenv import repo_import
from harness.replay import bind as B

META = {
    "property_id": "C39",
    "engine": "Encryption",
    "technique": "TLA+ data-path definition (bind -> wire cell -> decode) with an opaque cipher bijection; TLC enumerates column "
                 "layouts x rows of {null, v1, v2} x bind mode x metadata mode; every case is run through the real AES256 policy, "
                 "BoundStatement.bind, an independently encoded ROWS message and the real result decoder",
    "level": "model_checking",
    "level_text": "Exhaustive over the bounded case space (1-3 columns of int/text, every subset encrypted, 0-2 rows, every cell in "
                  "{null, two values incl. a negative int and the empty string}, positional and by-name binding, result metadata "
                  "inline and from the prepared statement, decoding by the same policy instance or by a separate one with the same "
                  "keys and another IV, protocol versions); TLC proves transparency of the definition; on the "
                  "real code each bound cell is compared with the definition (encrypted cells must differ from the plain bytes and "
                  "decrypt to them) and the decoded parsed_rows must equal the inputs.",
    "level_note": "Trusted: TLC, harness/wire.py (ROWS / PREPARED bodies), the server modelled as returning the cell bytes it was "
                  "sent. Only int, text and uuid columns with two or three values each (a negative int, the empty string, a 16-byte string "
                  "and a uuid whose last bytes look like PKCS7 padding) (value codecs are Codec.tla's concern); AES itself is not "
                  "modelled (opaque bijection) - the real cipher runs on the code side. Pure-Python decoder only unless a compiled "
                  "build is supplied through VERIF_COMPILED_REPO (none exists by default). quick: columns x rows <= 4.",
    "design_ref": "5.6 C39",
}

KEY = bytes(bytearray(range(32)))
IV = bytes(bytearray(range(100, 116)))            # explicit IV of the writing policy
IV2 = bytes(bytearray(range(200, 216)))           # explicit, different IV of a separate reading policy
WITNESSES = ["Witness_MixedCaseEncryptedColumn", "Witness_BlockAlignedPaddingLikeTail", "Witness_NullInEncryptedColumn", "Witness_MixedLayoutTwoRows", "Witness_EmptyStringEncrypted",
             "Witness_SeparateReaderPolicy"]


def runs(ctx):
    modes = {"same", "default_ivs", "explicit_ivs"}
    base = {"MaxCols": 3, "MaxRows": 2, "BindModes": {"seq", "map"}, "MetaModes": {"inline", "prepared"}, "PolicyModes": modes,
            "NameModes": {"lower"}}
    # NameModes "mixed": keyspace / table / columns with case-sensitive (quoted) names, ks."Accounts"."Photo"
    if ctx.quick:
        return [dict(base, MaxCells=4, FreeTypes=False, PVs={4}),
                dict(base, MaxCells=4, FreeTypes=False, PVs={4}, NameModes={"mixed"}, PolicyModes={"same"})]
    return [dict(base, MaxCells=6, FreeTypes=False, PVs={4}),
            dict(base, MaxCells=4, FreeTypes=True, PVs={3, 4, 5}, PolicyModes={"same", "explicit_ivs"}),
            dict(base, MaxCells=4, FreeTypes=False, PVs={4}, NameModes={"mixed"})]


class Env:
    """Writing policy + prepared statement, reading policy + protocol handler per (layout, protocol version, policy mode)."""

    def __init__(self, seed=0):
        self.cache = {}
        self.rng = random.Random(seed)
        self.pol_mod = repo_import("cassandra.column_encryption.policies")
        self.policies = repo_import("cassandra.policies")
        self.proto = repo_import("cassandra.protocol")
        if not hasattr(self.pol_mod, "AES256ColumnEncryptionPolicy"):
            raise tlc.MachineryError("AES256ColumnEncryptionPolicy unavailable (cryptography not importable)")

    def new_policy(self, iv):
        """iv=None: the policy's own default, a random IV (drawn from the check's seeded generator instead of the OS)."""
        if iv is not None:
            return self.pol_mod.AES256ColumnEncryptionPolicy(iv=iv)
        real = os.urandom
        os.urandom = lambda n: bytes(bytearray(self.rng.getrandbits(8) for _ in range(n)))
        try:
            return self.pol_mod.AES256ColumnEncryptionPolicy()
        finally:
            os.urandom = real

    def layout(self, cols, pv, mode="same", ids=None):
        """ids: per column the (keyspace, table, column) names as the server reports them (Encryption.tla ColumnId)."""
        ids = [tuple(i) for i in ids] if ids else [(B.KS, B.TABLE, B.col_name(i)) for i in range(1, len(cols) + 1)]
        ks, table, names = ids[0][0], ids[0][1], [i[2] for i in ids]
        key = (tuple((c["ty"], bool(c["enc"])) for c in cols), pv, mode, tuple(ids))
        if key in self.cache:
            return self.cache[key]
        # the policy that binds (writes) and the policy that decodes (reads): same keys, see Encryption.tla PolicyModes
        policy = self.new_policy(None if mode == "default_ivs" else IV)
        reader = policy if mode == "same" else self.new_policy(None if mode == "default_ivs" else IV2)
        descs = []
        for i, c in enumerate(cols, 1):
            d = self.policies.ColDesc(*ids[i - 1])            # the policy is configured with the exact names
            descs.append(d)
            if c["enc"]:
                policy.add_column(d, KEY, c["ty"])
                if reader is not policy:
                    reader.add_column(d, KEY, c["ty"])
        server_types = ["blob" if c["enc"] else c["ty"] for c in cols]            # the table stores ciphertext in a blob
        columns = [(names[i - 1], B.wire_type(t)) for i, t in enumerate(server_types, 1)]
        prepared = B.make_prepared(server_types, [], False, pv, policy=policy, result_columns=columns, ks=ks, table=table,
                                   names=names)
        handler = type("verif-ProtocolHandler", (self.proto.ProtocolHandler,), {"column_encryption_policy": reader})
        self.cache[key] = (policy, descs, prepared, handler, columns, reader, ks, table, names)
        return self.cache[key]


def py_cell(ty, cell):
    return None if cell["k"] == "null" else B.py_value(ty, cell["v"])


def evaluate(env, case):
    """-> {"bound": [[cell projection]], "bind_error", "decoded": rows | None, "decode_error"}"""
    q = repo_import("cassandra.query")
    cols, pv = case["cols"], case["pv"]
    obs = {"bound": [], "bind_error": None, "decoded": None, "decode_error": None}
    try:
        policy, descs, prepared, handler, columns, reader, ks, table, names = env.layout(cols, pv, case.get("pol", "same"),
                                                                                         case.get("ids"))
        obs["reader_iv"] = bytes(reader.iv).hex()
    except Exception as ex:              # noqa: a mutated driver may fail here
        obs["bind_error"] = "setup: %s: %s" % (type(ex).__name__, str(ex)[:200])
        return obs
    wire_rows = []
    for row in case["rows"]:
        vals = [py_cell(c["ty"], cell) for c, cell in zip(cols, row)]
        args = vals if case["bind"] == "seq" else {names[i - 1]: v for i, v in enumerate(vals, 1)}
        try:
            bound = q.BoundStatement(prepared).bind(args)
            cells = list(bound.values)
        except Exception as ex:          # noqa
            obs["bind_error"] = "%s: %s" % (type(ex).__name__, str(ex)[:200])
            return obs
        proj = []
        for c, d, b in zip(cols, descs, cells):
            if b is None:
                proj.append({"t": "null"})
            elif not isinstance(b, (bytes, bytearray)):
                proj.append({"t": "other", "repr": repr(b)[:80]})
            elif not c["enc"]:
                proj.append({"t": "plain", "b": list(bytearray(b))})
            else:
                try:
                    plain = list(bytearray(policy.decrypt(d, bytes(b))))
                except Exception as ex:  # noqa: not a ciphertext of this column
                    plain = "undecryptable (%s)" % type(ex).__name__
                proj.append({"t": "cipher", "sent": list(bytearray(b)), "decrypts_to": plain})
        obs["bound"].append(proj)
        wire_rows.append([None if b is None else bytes(b) for b in cells])
    inline = case["meta"] == "inline"
    body = B.wire.body_rows(columns, wire_rows, ks=ks, table=table, no_metadata=not inline)
    try:
        msg = handler.decode_message(pv, {}, 1, 0, 0x08, body, None, None if inline else prepared.result_metadata)
        obs["decoded"] = [list(r) for r in msg.parsed_rows]
    except Exception as ex:              # noqa
        obs["decode_error"] = "%s: %s" % (type(ex).__name__, str(ex)[:300])
    obs["body"] = bytes(body).hex()
    return obs


def expected(case, out):
    cols = case["cols"]
    exp_bound = [[{"t": b["t"], "b": list(b["b"])} for b in row] for row in out["bound"]]
    exp_rows = [[py_cell(c["ty"], cell) for c, cell in zip(cols, row)] for row in out["decoded"]]
    return exp_bound, exp_rows


def compare(env, st):
    """-> None, or (what, signature, replay); the signature names case-sensitive column names when the case has them."""
    r = _compare(env, st)
    if r and st["case"].get("names") == "mixed":
        return (r[0], r[1] + ":case-sensitive-names", r[2])
    return r


def _compare(env, st):
    case, out = st["case"], st["out"]
    obs = evaluate(env, case)
    exp_bound, exp_rows = expected(case, out)
    cols = case["cols"]
    rep = {"case": case, "out": out, "spec": {"bound": exp_bound, "rows": [[repr(v) for v in row] for row in exp_rows]}, "code": obs}
    null_enc = any(cell["k"] == "null" and c["enc"] for row in case["rows"] for c, cell in zip(cols, row))
    if obs["bind_error"]:
        return ("bind failed: %s" % obs["bind_error"], "bind:%s:raised" % case["bind"], rep)
    for i, (erow, orow) in enumerate(zip(exp_bound, obs["bound"])):
        for c, (e, o) in enumerate(zip(erow, orow), 1):
            enc = cols[c - 1]["enc"]
            where = "bind:%s:%s-column" % (case["bind"], "encrypted" if enc else "plain")
            if e["t"] == "null":
                if o["t"] != "null":
                    return ("row %d column %d: null bound as %s" % (i, c, o), where + ":null-not-null", rep)
            elif e["t"] == "plain":
                if o != {"t": "plain", "b": e["b"]}:
                    return ("row %d column %d (not encrypted): bound %s, serialization is %s" % (i, c, o, e["b"]),
                            where + ":bytes-differ", rep)
            else:
                if o["t"] != "cipher":
                    return ("row %d column %d (encrypted): bound %s" % (i, c, o), where + ":not-bytes", rep)
                if o["sent"] == e["b"]:
                    return ("row %d column %d (encrypted): the plain serialization %s was bound" % (i, c, e["b"]),
                            where + ":sent-in-clear", rep)
                if o["decrypts_to"] != e["b"]:
                    return ("row %d column %d (encrypted): bound bytes decrypt to %s, serialization is %s"
                            % (i, c, o["decrypts_to"], e["b"]), where + ":does-not-decrypt-to-serialization", rep)
    if len(obs["bound"]) != len(exp_bound):
        return ("bound %d rows of %d" % (len(obs["bound"]), len(exp_bound)), "bind:%s:rows" % case["bind"], rep)
    pol = case.get("pol", "same")
    # which policy instance decodes: the signature names it when it is not the one that bound
    reader = "" if pol == "same" else ":reader-policy=separate-instance-%s" % pol
    by = "" if pol == "same" else " (decoding policy: separate instance, same keys, %s)" % pol.replace("_", " ")
    if obs["decode_error"]:
        return ("result decoder failed on %s result set%s: %s" % (
                    "a" if not null_enc else "a null cell of an encrypted column in the", by, obs["decode_error"]),
                "decode:%s%s" % ("null-in-encrypted-column" if null_enc else "raised", reader), rep)
    if obs["decoded"] != exp_rows:
        return ("decoded rows %r, inputs %r%s" % (obs["decoded"], exp_rows, by),
                "decode:%s:rows-differ%s" % ("null-in-encrypted-column" if null_enc else "values", reader), rep)
    return None


def padding_like(b):
    """Encryption.tla PaddingLikeTail: block-aligned and ending in n bytes of value n."""
    b = list(b)
    return bool(b) and len(b) % 16 == 0 and 1 <= b[-1] <= 16 and b[-b[-1]:] == [b[-1]] * b[-1]


def witness_flags(case):
    cols, rows = case["cols"], case["rows"]
    return {
        "Witness_NullInEncryptedColumn": any(c["enc"] and cell["k"] == "null" for r in rows for c, cell in zip(cols, r)),
        "Witness_MixedLayoutTwoRows": len(rows) == 2 and any(c["enc"] for c in cols) and any(not c["enc"] for c in cols),
        "Witness_BlockAlignedPaddingLikeTail": any(
            c["enc"] and cell["k"] == "val" and c["ty"] != "int" and padding_like(cell["v"]["s"])
            for r in rows for c, cell in zip(cols, r)),
        "Witness_MixedCaseEncryptedColumn": case.get("names") == "mixed" and len(rows) >= 1 and any(
            c["enc"] and cell["k"] == "val" for c, cell in zip(cols, rows[0])),
        "Witness_SeparateReaderPolicy": case.get("pol", "same") != "same" and len(rows) >= 1,
        "Witness_EmptyStringEncrypted": any(c["enc"] and c["ty"] == "text" and cell["k"] == "val" and len(cell["v"]["s"]) == 0
                                            for r in rows for c, cell in zip(cols, r)),
    }


def compiled_repo():
    """A built copy of the driver (Cython row parser), if one was supplied."""
    path = os.environ.get("VERIF_COMPILED_REPO")
    if path and os.path.isdir(os.path.join(path, "cassandra")):
        return path
    return None


def run_compiled(ctx, path, vectors):
    """Decode the same ROWS bodies with the compiled parsers of the copy at `path` in a subprocess."""
    vec_file = os.path.join(ctx.scratch, "c39_vectors.json")
    with open(vec_file, "w") as f:
        json.dump(vectors, f, default=lambda o: {"uuid": str(o)})
    env = dict(os.environ, VERIF_REPO=path)
    env.pop("CASS_DRIVER_NO_EXTENSIONS", None)
    p = subprocess.run([sys.executable, os.path.abspath(__file__), "--compiled", path, vec_file], env=env,
                       stdout=subprocess.PIPE, stderr=subprocess.PIPE, text=True, timeout=1800)
    if p.returncode != 0:
        raise tlc.MachineryError("compiled-decoder subprocess failed: %s" % p.stderr[-1500:])
    return json.loads(p.stdout.strip().splitlines()[-1])


def run(ctx):
    env = Env(ctx.seed)
    n = 0
    by_signature = {}
    reached = dict.fromkeys(WITNESSES, False)
    probe = None
    cpath = compiled_repo()
    vectors = []
    all_runs = runs(ctx)
    for consts in all_runs:
        label = "MaxCells=%d FreeTypes=%s PVs=%s names=%s" % (consts["MaxCells"], consts["FreeTypes"], sorted(consts["PVs"]),
                                                              sorted(consts["NameModes"]))
        cfg = tlc.write_cfg(os.path.join(ctx.scratch, "enc.cfg"), constants=consts, invariants=["C39Invariants"], deadlock=False)
        res, states = B.enumerate_cases("Encryption", cfg, ctx.scratch, timeout=900 if ctx.quick else 3000)
        ctx.add_tlc(res, "exhaustive " + label)
        if res.violation:
            ctx.violation("TLC: %s violated on Encryption.tla" % res.invariant,
                          replay={"trace": [dict(s) for _, s in res.trace()]}, signature="spec:%s" % res.invariant)
            return
        every = res.distinct // 3 + 1
        for st in states:
            case = st["case"]
            r = compare(env, st)
            n += 1
            for w, hit in witness_flags(case).items():
                reached[w] = reached[w] or hit
            if case["rows"] and any(c["enc"] for c in case["cols"]):
                ctx.nontrivial(n)
            if n % every == 5:
                ctx.sample({"case": case, "out": st["out"]})
            if probe is None and case["pol"] == "same" and len(case["rows"]) >= 1 and len(case["cols"]) >= 2 and \
                    all(cell["k"] == "val" for row in case["rows"] for cell in row) and any(c["enc"] for c in case["cols"]):
                probe = st
            if cpath:
                obs = evaluate(env, case)
                if obs.get("body") and not obs["bind_error"]:
                    vectors.append({"cols": [[c["ty"], bool(c["enc"])] for c in case["cols"]], "pv": case["pv"],
                                    "inline": case["meta"] == "inline", "body": obs["body"], "reader_iv": obs["reader_iv"],
                                    "ids": [list(i) for i in case["ids"]],
                                    "pol": case["pol"],
                                    "rows": expected(case, st["out"])[1]})
            if r:
                by_signature[r[1]] = by_signature.get(r[1], 0) + 1
                if by_signature[r[1]] == 1:
                    ctx.violation("%s | columns %s (%s) bind=%s meta=%s policies=%s pv=%d rows=%r" % (
                        r[0], [(c["ty"], "enc" if c["enc"] else "clear") for c in case["cols"]],
                        ", ".join(".".join(i) for i in case["ids"]), case["bind"], case["meta"], case["pol"], case["pv"], expected(case, st["out"])[1]), replay=r[2], signature=r[1])
    if not all(reached.values()):
        raise tlc.MachineryError("vacuity: not reached: %s" % sorted(k for k, v in reached.items() if not v))
    if not ctx.quick:
        for w in WITNESSES:
            wcfg = tlc.write_cfg(os.path.join(ctx.scratch, w + ".cfg"), constants=dict(all_runs[0], MaxCells=4, PVs={4}, NameModes={"lower", "mixed"}),
                                 invariants=[w], deadlock=False)
            wres = tlc.check_model("Encryption", wcfg, ctx.scratch, timeout=600)
            if wres.invariant != w:
                raise tlc.MachineryError("vacuity witness %s was not reached" % w)
    ctx.note("vacuity_witnesses_reached", len(WITNESSES))
    ctx.evaluations = n
    ctx.traces_validated = n
    ctx.note("exhaustive", True)
    ctx.note("constants", [{k: (sorted(v) if isinstance(v, (set, frozenset)) else v) for k, v in c.items()} for c in all_runs])
    ctx.note("failing_cases_by_signature", by_signature)
    ctx.note("layouts_built", len(env.cache))
    ctx.note("decoders", ["pure-python ResultMessage.recv_results_rows"])
    if cpath:
        got = run_compiled(ctx, cpath, vectors)
        ctx.note("decoders", ["pure-python ResultMessage.recv_results_rows", "compiled (Cython) row parser from %s: %s" % (cpath, got["handlers"])])
        ctx.note("compiled_vectors", got["vectors"])
        for sig, first in got["failures"].items():
            ctx.violation("compiled decoder: %s" % first["what"], replay=first, signature="compiled:" + sig)
    else:
        ctx.note("compiled_decoder", "not exercised: the tree is pure Python and no compiled build was supplied (VERIF_COMPILED_REPO)")
    # binding self-test: corrupted expectations must be noticed
    rejected = 0
    out = probe["out"]
    bad_rows = list(out["decoded"])
    bad_rows[0] = tuple(reversed(bad_rows[0])) if bad_rows[0][0] != bad_rows[0][-1] else bad_rows[0][:-1]
    rejected += bool(compare(env, {"case": probe["case"], "out": dict(out, decoded=tuple(bad_rows))}))
    bad_bound = [[dict(b) for b in row] for row in out["bound"]]
    for b in bad_bound[0]:
        if b["t"] == "cipher":
            b["b"] = tuple(b["b"]) + (0,)
    rejected += bool(compare(env, {"case": probe["case"], "out": dict(out, bound=bad_bound)}))
    # when the code under test already diverges from the definition the probe case may itself be a failing one; the
    # self-test is then not meaningful and must not mask the violation with a machinery failure
    if rejected != 2 and not by_signature:
        raise tlc.MachineryError("binding self-test failed: %d of 2 corrupted expectations detected" % rejected)
    ctx.note("binding_selftest", {"corrupted_rejected": rejected, "meaningful": not by_signature})
    ctx.assumptions += ["the server returns for a cell the [bytes] it was sent (ROWS body assembled by harness/wire.py)",
                        "int / text / uuid columns, two or three values each incl. block-aligned plaintexts ending like PKCS7 padding; the cipher is the real AES256 policy with a fixed key; writing and reading "
                        "policy: same instance / separate instances with default random IVs (drawn from the seeded generator) / "
                        "separate instances with explicit different IVs - the IV travels with the ciphertext (PYTHON-1350)",
                        "compiled decoder only when VERIF_COMPILED_REPO is supplied"]


def replay(ctx, obj):
    env = Env(ctx.seed)
    case = obj["case"]
    obs = evaluate(env, case)
    print("columns:", [(c["ty"], "encrypted" if c["enc"] else "clear") for c in case["cols"]], "bind:", case["bind"],
          "metadata:", case["meta"], "pv:", case["pv"], "policies:", case.get("pol", "same"))
    print("input rows  :", obj["spec"]["rows"])
    print("bound       :", obs["bound"], obs["bind_error"] or "")
    print("decoded rows:", obs["decoded"], obs["decode_error"] or "")
    r = compare(env, {"case": case, "out": obj["out"]})
    if r:
        ctx.violation("replayed: " + r[0], replay=obj, signature=r[1])


def _compiled_main(path, vec_file):
    """Runs in a subprocess whose driver is the compiled copy: decode every vector with the Cython handlers."""
    sys.path.insert(0, path)
    import cassandra.protocol as proto
    from cassandra.column_encryption.policies import AES256ColumnEncryptionPolicy
    from cassandra.policies import ColDesc
    if not getattr(proto, "HAVE_CYTHON", False):
        print(json.dumps({"handlers": "HAVE_CYTHON is false in %s" % path, "vectors": 0, "failures": {}}))
        return
    with open(vec_file) as f:
        vectors = json.load(f)
    names = {"int": "Int32Type", "text": "UTF8Type", "blob": "BytesType", "uuid": "UUIDType"}
    import uuid
    import cassandra.cqltypes as cqt
    failures = {}
    handlers = {"ProtocolHandler": proto.ProtocolHandler, "LazyProtocolHandler": proto.LazyProtocolHandler}
    for v in vectors:
        policy = AES256ColumnEncryptionPolicy(iv=bytes.fromhex(v["reader_iv"]))       # the READING policy of the case
        md = []
        for i, (ty, enc) in enumerate(v["cols"], 1):
            ident = v["ids"][i - 1]
            d = ColDesc(*ident)
            if enc:
                policy.add_column(d, KEY, ty)
            md.append(proto.ColumnMetadata(ident[0], ident[1], ident[2], getattr(cqt, names["blob" if enc else ty])))
        v["rows"] = [[uuid.UUID(c["uuid"]) if isinstance(c, dict) else c for c in row] for row in v["rows"]]
        null_enc = any(enc and cell is None for row in v["rows"] for (ty, enc), cell in zip(v["cols"], row))
        for hname, base in handlers.items():
            h = type("verif-" + hname, (base,), {"column_encryption_policy": policy})
            try:
                msg = h.decode_message(v["pv"], {}, 1, 0, 0x08, bytes.fromhex(v["body"]), None, None if v["inline"] else md)
                rows = [list(r) for r in msg.parsed_rows]
                what = None if rows == v["rows"] else "decoded %r, inputs %r" % (rows, v["rows"])
            except Exception as ex:      # noqa
                what = "%s: %s" % (type(ex).__name__, str(ex)[:300])
            if what:
                sig = "%s:decode:%s%s" % (hname, "null-in-encrypted-column" if null_enc else "values",
                                          "" if v["pol"] == "same" else ":reader-policy=separate-instance-%s" % v["pol"])
                failures.setdefault(sig, {"what": what, "vector": dict(v, rows=repr(v["rows"]))})
    print(json.dumps({"handlers": sorted(handlers), "vectors": len(vectors), "failures": failures}))


if __name__ == "__main__" and len(sys.argv) == 4 and sys.argv[1] == "--compiled":
    _compiled_main(sys.argv[2], sys.argv[3])
