"""Shared driver for C12 / C13 (spec/Pool.tla bound to the real HostConnection pool, its connections and the
request futures that borrow from it)."""
import copy
import os
from collections import deque
from concurrent.futures import ThreadPoolExecutor

from harness import tlc

C12_INV = ["TypeOK", "Capacity", "NonNegative", "Accounting", "AllClosed", "NoCurAfterShutdown"]
C12_PROPS = ["ShutdownRefuses"]
C13_INV = ["TrashDrains", "CurNotTrashed"]
C13_PROPS = ["NoAbandon", "NewBorrowsUseCurrent", "PublishedIsCurrent"]
INV = C12_INV + C13_INV
PROPS = C12_PROPS + C13_PROPS
ACTIONS = ["BorrowStart", "BorrowMark", "BorrowTake", "Send", "Respond", "LateStart", "LateFinish", "Timeout", "ConnFails", "ReplaceCheck", "ReplaceOpen",
           "ReplacePublish", "ReplaceRetire", "ShutdownMark", "ShutdownCloseCur", "ShutdownCloseTrash"]
WITNESSES = {
    "C12": ["Witness_CapacityRefusal", "Witness_PublishAfterShutdown", "Witness_ShutdownWithTrash",
            "Witness_RetireAfterShutdown", "Witness_FailedOldWhileCurrentHealthy", "Witness_InlineShutdown",
            "Witness_QuiescentAllClosed", "Witness_ShutdownDuringUse", "Witness_MarkAfterReplacement",
            "Witness_ShutdownTrashWithoutCurrent"],
    "C13": ["Witness_Trashed", "Witness_TrashClosedByRespond", "Witness_TrashClosedByTimeout", "Witness_Repick",
            "Witness_RetireDuringLateResponse", "Witness_BorrowDuringLateResponse", "Witness_TimeoutBelowThresholdAfterLatch"],
}

# constants: capacity MaxId, orphan threshold, requests, connections ever opened, failed opens, socket errors
K_SMALL = {"MaxId": 2, "Threshold": 1, "Reqs": {1, 2}, "NConns": 2, "MaxFails": 0, "MaxConnFails": 1, "Ks": False, "SubmitAtTimeout": False}
K_SMALL3 = {"MaxId": 2, "Threshold": 1, "Reqs": {1, 2}, "NConns": 3, "MaxFails": 1, "MaxConnFails": 1, "Ks": False, "SubmitAtTimeout": False}
K_CAP = {"MaxId": 1, "Threshold": 1, "Reqs": {1, 2}, "NConns": 2, "MaxFails": 0, "MaxConnFails": 1, "Ks": False, "SubmitAtTimeout": False}
K_MID = {"MaxId": 2, "Threshold": 1, "Reqs": {1, 2, 3}, "NConns": 2, "MaxFails": 0, "MaxConnFails": 1, "Ks": False, "SubmitAtTimeout": False}
K_MID3 = {"MaxId": 2, "Threshold": 1, "Reqs": {1, 2, 3}, "NConns": 3, "MaxFails": 1, "MaxConnFails": 1, "Ks": False, "SubmitAtTimeout": False}
K_KS = dict(K_SMALL, Ks=True)          # with a session keyspace: the USE on the replacement connection is a step of its own
K_KS3 = dict(K_SMALL3, Ks=True)
K_T2 = {"MaxId": 3, "Threshold": 2, "Reqs": {1, 2, 3}, "NConns": 2, "MaxFails": 0, "MaxConnFails": 0, "Ks": False,
        "SubmitAtTimeout": False}      # threshold 2: late responses can bring the orphan count below it again
K_RACE = {"MaxId": 2, "Threshold": 1, "Reqs": {1, 2, 3}, "NConns": 3, "MaxFails": 0, "MaxConnFails": 0, "Ks": False, "SubmitAtTimeout": False}   # two borrowers after the threshold
K_BIG = {"MaxId": 3, "Threshold": 2, "Reqs": {1, 2, 3, 4}, "NConns": 3, "MaxFails": 1, "MaxConnFails": 1, "Ks": False, "SubmitAtTimeout": False}

WHAT = {
    "HostConnection.borrow_connection:replace-submitted-for-a-connection-that-is-no-longer-current":
        "borrow_connection reads _connection without the lock and, under the lock, submits _replace for it whenever "
        "_is_replacing is clear (pool.py 423-428): when that connection was replaced in between, the second _replace opens "
        "another connection and overwrites the one the first replacement published, which is then referenced by nobody "
        "and never closed (not even by shutdown())",
    "HostConnection.shutdown:trashed-connections-not-closed":
        "HostConnection.shutdown() does not close the connections set aside in _trash (pool.py shutdown(), last part)",
    "HostConnection._replace:publishes-new-connection-after-shutdown":
        "_replace publishes the connection it opened although the pool was shut down meanwhile; nobody closes it (pool.py 511-514)",
    "HostConnection.return_connection:dead-old-connection-clears-current":
        "return_connection of a dead replaced (old/trashed) connection sets _connection = None and drops the healthy "
        "current connection without closing it (pool.py 479)",
    "HostConnection._replace:old-connection-kept-open-after-shutdown":
        "_replace puts the old connection in _trash after shutdown() already emptied it; a request on it that then times "
        "out is not returned (pool shut down), so the connection is never closed (pool.py 521-525)",
}


def name(k):
    return "MaxId=%d Threshold=%d Reqs=%d NConns=%d MaxFails=%d MaxConnFails=%d%s" % (
        k["MaxId"], k["Threshold"], len(k["Reqs"]), k["NConns"], k["MaxFails"], k["MaxConnFails"], (" keyspace" if k.get("Ks") else "") + (" submit-at-timeout" if k.get("SubmitAtTimeout") else ""))


def owner_of_invariant(inv):
    return "C13" if inv in C13_INV + C13_PROPS else "C12"


def cover_walks(edges, init, max_len, hop=8):
    """Walks from an initial state that together traverse every edge of the graph (greedy: shortest prefix
    to an uncovered edge, then on through uncovered edges, hopping over at most `hop` covered ones)."""
    succ = {}
    for s, d, _ in edges:
        succ.setdefault(s, []).append(d)
    parent = {}
    dq = deque()
    for i in init:
        parent[i] = None
        dq.append(i)
    while dq:
        u = dq.popleft()
        for v in succ.get(u, ()):
            if v not in parent:
                parent[v] = u
                dq.append(v)

    def prefix(n):
        p = []
        while n is not None:
            p.append(n)
            n = parent[n]
        return p[::-1]
    uncovered = set((s, d) for s, d, _ in edges if s in parent)
    out_unc = {}
    for s, d in uncovered:
        out_unc[s] = out_unc.get(s, 0) + 1

    def take(a, b):
        if (a, b) in uncovered:
            uncovered.discard((a, b))
            out_unc[a] -= 1

    def nearest(cur, budget):
        seen = {cur: None}
        q = deque([(cur, 0)])
        while q:
            u, dist = q.popleft()
            if out_unc.get(u, 0) > 0 and u != cur:
                p = []
                while u is not None:
                    p.append(u)
                    u = seen[u]
                return p[::-1][1:]
            if dist >= budget:
                continue
            for v in succ.get(u, ()):
                if v not in seen:
                    seen[v] = u
                    q.append((v, dist + 1))
        return None
    walks = []
    order = sorted(uncovered)
    idx = 0
    while uncovered:
        while order[idx] not in uncovered:
            idx += 1
        s, d = order[idx]
        w = prefix(s) + [d]
        for a, b in zip(w, w[1:]):
            take(a, b)
        cur = d
        while len(w) < max_len:
            nxt = [v for v in succ.get(cur, ()) if (cur, v) in uncovered]
            if nxt:
                take(cur, nxt[0])
                w.append(nxt[0])
                cur = nxt[0]
                continue
            p = nearest(cur, min(hop, max_len - len(w) - 1))
            if not p:
                break
            for v in p:
                take(cur, v)
                w.append(v)
                cur = v
        walks.append(w)
    return walks


class Reporter:
    """One ctx.violation per distinct signature (the first case found), counts for the rest."""

    def __init__(self, ctx, pid):
        self.ctx, self.pid = ctx, pid
        self.counts = {}
        self.other = {}

    def report(self, own, signature, what, replay):
        book = self.counts if own == self.pid else self.other
        first = signature not in book
        book[signature] = book.get(signature, 0) + 1
        if own == self.pid and first:
            self.ctx.violation(what, replay=replay, signature=signature)

    def finish(self):
        self.ctx.note("violations_by_signature", dict(self.counts))
        if self.other:
            self.ctx.note("divergences_owned_by_the_sibling_property", dict(self.other))


def _jc(consts):
    return {k: (sorted(v) if isinstance(v, (set, frozenset)) else v) for k, v in consts.items()}


def _acts(states):
    return [dict(s["act"]) for s in states[1:]]


def _jsonable_div(d):
    out = dict(d)
    out["diff"] = {k: {"spec": repr(v["spec"]), "code": repr(v["code"])} for k, v in d["diff"].items()}
    if "after_repair" in out:
        out["after_repair"] = {k: {"spec": repr(v["spec"]), "code": repr(v["code"])} for k, v in d["after_repair"].items()}
    return out


def tlc_exhaustive(ctx, pid, consts, label, rep, coverage=True, timeout=900):
    cfg = tlc.write_cfg(os.path.join(ctx.scratch, "pool_%s.cfg" % label), constants=consts, invariants=INV,
                        properties=PROPS, deadlock=False)
    res = tlc.check_model("Pool", cfg, ctx.scratch, coverage=coverage, timeout=timeout)
    ctx.add_tlc(res, "exhaustive %s" % name(consts))
    if res.violation:
        rep.report(owner_of_invariant(res.invariant), "spec:%s" % res.invariant,
                   "TLC: %s violated on Pool.tla (%s)" % (res.invariant, name(consts)),
                   {"kind": "spec", "trace": [dict(s.get("act", {})) for _, s in res.trace()]})
        return None
    if coverage:
        cov = res.coverage()
        zero = [a for a in ACTIONS if a not in cov or cov[a][1] == 0]
        if zero:
            raise tlc.MachineryError("actions never taken in the exhaustive model %s: %s" % (name(consts), zero))
    return res


def witnesses(ctx, pid, consts, rep=None):
    """Every vacuity witness must be reachable; the behaviour TLC exhibits for it (a shortest path into the
    situation the witness names) is then replayed on the real objects as a directed case."""
    def one(w):
        k = {"Witness_ShutdownDuringUse": K_KS3, "Witness_TimeoutBelowThresholdAfterLatch": K_T2}.get(w, consts)
        k = dict(k, SubmitAtTimeout=consts["SubmitAtTimeout"])
        cfg = tlc.write_cfg(os.path.join(ctx.scratch, w + ".cfg"), constants=k, invariants=[w], deadlock=False)
        return w, k, tlc.check_model("Pool", cfg, ctx.scratch, workers=3, timeout=1800, heap="1g")
    found = []
    with ThreadPoolExecutor(max_workers=6) as ex:
        for w, k, res in ex.map(one, WITNESSES[pid]):
            if res.invariant != w:
                raise tlc.MachineryError("vacuity witness %s not reachable with %s" % (w, name(k)))
            found.append((w, k, [st for _, st in res.trace()]))
    ctx.note("vacuity_witnesses_reached", len(WITNESSES[pid]))
    if rep is None:
        return
    from harness.replay import pool as rp
    clean = 0
    for w, k, states in found:
        if len(states) < 2:
            raise tlc.MachineryError("no behaviour parsed for witness %s" % w)
        div, met = rp.replay(k, states)
        acts = _acts(states)
        ctx.nontrivial(("witness", w))
        _report(rep, pid, k, states, acts, div, met)
        if not div and not met:
            clean += 1
    ctx.traces_validated += clean
    ctx.count("behaviours_replayed", len(found))
    ctx.count("behaviours_replayed_without_divergence", clean)
    ctx.note("witness_behaviours_replayed", len(found))


def _report(rep, pid, consts, states, acts, div, met):
    from harness.replay import pool as rp
    if div and div.get("choice"):
        div = None              # the code resolved something the properties leave open differently: the behaviour just ends
    for m in met:
        rep.report("C12", m["signature"],
                   "%s. Replay: after %s the specification (what C12 requires) and the code differ: %s"
                   % (WHAT[m["signature"]], m["action"]["name"], _jsonable_div(m)["diff"]),
                   {"kind": "walk", "constants": _jc(consts), "actions": acts[:m["step"] - 1],
                    "repairs": {str(x["step"]): {"signature": x["signature"], "info": x["repair"]} for x in met if x["step"] < m["step"]},
                    "divergence": _jsonable_div(m)})
    if div:
        special = [k for k in ("_refused", "_exception", "_close_log") if k in div["diff"]]
        own = ("C13" if special == ["_close_log"] else _owner_by_action(div["action"], states[div["step"]])) if special else \
            rp.owner(div["signature"].replace("+other", ""), div["action"], rp.spec_view(states[div["step"]]), div["diff"])
        rep.report(own, div["signature"],
                   "replay diverges at step %d (%s): %s" % (div["step"], div["action"], _jsonable_div(div)["diff"]),
                   {"kind": "walk", "constants": _jc(consts), "actions": acts[:div["step"] - 1],
                    "repairs": {str(x["step"]): {"signature": x["signature"], "info": x["repair"]} for x in met},
                    "divergence": _jsonable_div(div)})


def _mark_after_replacement_window(nodes, w):
    """A walk in which a borrower reaches the pool lock after the connection it read was replaced."""
    return any(nodes[n]["act"]["name"] == "BorrowMark" and nodes[n]["on"][nodes[n]["act"]["r"] - 1] != nodes[n]["cur"] for n in w)


def _publish_after_shutdown_window(nodes, w):
    """A walk in which the replacement is published (or refused) while the pool is shut down."""
    return any(nodes[n]["act"]["name"] == "ReplacePublish" and nodes[n]["shutdown"] for n in w)


def replay_graph(ctx, pid, consts, rep, max_walks=None, label="graph", prefer=None):
    from harness.replay import pool as rp
    cfg = tlc.write_cfg(os.path.join(ctx.scratch, "pool_%s.cfg" % label), constants=consts, deadlock=False)
    res, nodes, edges, init = tlc.state_graph("Pool", cfg, ctx.scratch, timeout=1800)
    ctx.add_tlc(res, "state graph %s" % name(consts))
    walks = cover_walks(edges, init, max_len=60)
    total = len(walks)
    if max_walks is not None and total > max_walks:
        ctx.rng.shuffle(walks)
        if prefer is not None:          # half of the sample from the walks through the window of interest
            first = [w for w in walks if prefer(nodes, w)]
            walks = (first[:max_walks // 2] + [w for w in walks if not prefer(nodes, w)])
        walks = walks[:max_walks]
    all_edges = set((s, d) for s, d, _ in edges)
    covered = set()
    replayed = clean = 0
    met_counts = {}
    selftest = None
    for w in walks:
        states = [nodes[n] for n in w]
        div, met = rp.replay(consts, states)
        replayed += 1
        upto = div["step"] if div else len(w) - 1
        ended_early = bool(div and div.get("choice"))
        if ended_early:          # the code closed the connections of a running shutdown() in another order: nothing to judge
            upto = div["step"] - 1
            div = None
            ctx.count("%s_walks_ended_where_the_code_resolved_an_open_choice_differently" % label)
        covered.update(zip(w[:upto + 1], w[1:upto + 1]))
        acts = _acts(states)
        names = [a["name"] for a in acts[:upto]]
        if any(n.startswith("Replace") or n.startswith("Shutdown") or n in ("Timeout", "LateStart", "ConnFails") for n in names):
            ctx.nontrivial(tuple((a["name"], a["r"], a["c"], a["f"]) for a in acts[:upto]))
        if replayed % 400 == 1:
            ctx.sample({"direction": "spec->code", "constants": name(consts), "actions": acts[:25]})
        for m in met:
            met_counts[m["signature"]] = met_counts.get(m["signature"], 0) + 1
            rep.report("C12", m["signature"],
                       "%s. Replay: after %s the specification (what C12 requires) and the code differ: %s"
                       % (WHAT[m["signature"]], m["action"]["name"], _jsonable_div(m)["diff"]),
                       {"kind": "walk", "constants": _jc(consts), "actions": acts[:m["step"] - 1],
                        "repairs": {str(x["step"]): {"signature": x["signature"], "info": x["repair"]} for x in met if x["step"] < m["step"]},
                        "divergence": _jsonable_div(m)})
        if div:
            own = rp.owner(div["signature"].replace("+other", ""), div["action"], rp.spec_view(states[div["step"]]), div["diff"]) \
                if "_refused" not in div["diff"] and "_exception" not in div["diff"] and "_close_log" not in div["diff"] \
                else ("C13" if "_close_log" in div["diff"] else _owner_by_action(div["action"], states[div["step"]]))
            rep.report(own, div["signature"],
                       "replay diverges at step %d (%s): %s" % (div["step"], div["action"], _jsonable_div(div)["diff"]),
                       {"kind": "walk", "constants": _jc(consts), "actions": acts[:div["step"] - 1],
                        "repairs": {str(x["step"]): {"signature": x["signature"], "info": x["repair"]} for x in met},
                        "divergence": _jsonable_div(div)})
        elif not met and not ended_early:
            clean += 1
            if selftest is None and len(w) >= 6:
                # binding self-test: the same behaviour with one flipped expectation must be noticed
                bad = list(states)
                flipped = dict(bad[4])
                flipped["replacing"] = not flipped["replacing"]
                bad[4] = flipped
                d2, _ = rp.replay(consts, bad)
                selftest = bool(d2) and d2["step"] == 4 and "replacing" in d2["diff"]
                if not selftest:
                    raise tlc.MachineryError("binding self-test failed: a flipped expectation was not noticed by the replay")
    if selftest:
        ctx.count("binding_selftest_replay_flipped_expectation_noticed")
    ctx.traces_validated += clean
    ctx.count("behaviours_replayed", replayed)
    ctx.count("behaviours_replayed_without_divergence", clean)
    ctx.note("%s_edges" % label, len(all_edges))
    ctx.note("%s_edges_replayed" % label, len(covered))
    ctx.note("%s_cover_walks" % label, {"needed_for_every_edge": total, "replayed": len(walks)})
    ctx.note("%s_exhaustive" % label, len(covered) == len(all_edges))
    if met_counts:
        ctx.note("%s_known_leak_steps_met_and_repaired" % label, met_counts)
    return replayed


def replay_simulated(ctx, pid, consts, rep, num, depth=60):
    """Behaviours of a larger instance sampled by TLC's simulator (faults late: Sim_LateFaults), replayed."""
    from harness.replay import pool as rp
    cfg = tlc.write_cfg(os.path.join(ctx.scratch, "pool_sim.cfg"), constants=consts, deadlock=False,
                        action_constraints=["Sim_LateFaults"])
    res, behs = tlc.simulate("Pool", cfg, ctx.scratch, num=num, depth=depth, seed=ctx.seed, timeout=1500)
    if not behs:
        raise tlc.MachineryError("TLC -simulate produced no behaviour: %s" % res.error)
    clean = 0
    for b in behs:
        div, met = rp.replay(consts, b)
        if div and div.get("choice"):
            div = None
        acts = _acts(b)
        upto = div["step"] if div else len(b) - 1
        ctx.nontrivial(tuple((a["name"], a["r"], a["c"], a["f"]) for a in acts[:upto]))
        for m in met:
            rep.report("C12", m["signature"],
                       "%s. Replay: after %s the specification (what C12 requires) and the code differ: %s"
                       % (WHAT[m["signature"]], m["action"]["name"], _jsonable_div(m)["diff"]),
                       {"kind": "walk", "constants": _jc(consts), "actions": acts[:m["step"] - 1],
                        "repairs": {str(x["step"]): {"signature": x["signature"], "info": x["repair"]} for x in met if x["step"] < m["step"]},
                        "divergence": _jsonable_div(m)})
        if div:
            special = [k for k in ("_refused", "_exception", "_close_log") if k in div["diff"]]
            own = ("C13" if special == ["_close_log"] else _owner_by_action(div["action"], b[div["step"]])) if special else \
                rp.owner(div["signature"].replace("+other", ""), div["action"], rp.spec_view(b[div["step"]]), div["diff"])
            rep.report(own, div["signature"],
                       "replay diverges at step %d (%s): %s" % (div["step"], div["action"], _jsonable_div(div)["diff"]),
                       {"kind": "walk", "constants": _jc(consts), "actions": acts[:div["step"] - 1],
                        "repairs": {str(x["step"]): {"signature": x["signature"], "info": x["repair"]} for x in met},
                        "divergence": _jsonable_div(div)})
        elif not met:
            clean += 1
    ctx.traces_validated += clean
    ctx.count("behaviours_replayed", len(behs))
    ctx.count("behaviours_replayed_without_divergence", clean)
    ctx.note("simulated_behaviours_replayed", {"constants": name(consts), "behaviours": len(behs),
                                               "steps": sum(len(b) - 1 for b in behs)})
    return len(behs)


def _owner_by_action(act, post):
    if post["shutdown"]:
        return "C12"
    return "C13" if act["name"] in ("ReplaceRetire", "ReplacePublish") else "C12"


def _trace_owner(ev, before, signature):
    from harness.replay import pool as rp
    if signature in rp.LEAK_SIGNATURES:
        return "C12"
    post = ev.get("post")
    if ev.get("close_log"):
        return "C13"
    if post is None or before is None or post["shutdown"]:
        return "C12"
    for c in post["trash"]:
        if not post["closed"][c - 1] and post["inflight"][c - 1] == len(post["orph"][c - 1]):
            return "C13"                                   # a drained trashed connection left open
    for i, (a, b) in enumerate(zip(before["closed"], post["closed"])):
        if b and not a and not post["defunct"][i]:
            return "C13"                                   # a close the specification does not make here
    if ev["e"] in ("BorrowStart", "BorrowTake") and post["on"] != before["on"]:
        r = ev["r"] - 1
        if post["st"][r] in ("picked", "borrowed") and post["on"][r] != post["cur"] and post["on"][r] != before["on"][r]:
            return "C13"
    return "C12"


def validate_recorded(ctx, pid, consts, n_traces, rep, max_events=60):
    from harness.replay import pool as rp
    traces = [rp.record(consts, ctx.rng, max_events=max_events) for _ in range(n_traces)]
    good = len(traces)
    # victims of the binding self-test: long enough, and their first events outside a running shutdown() (those are
    # compared weakly on purpose, a corrupted field there would rightly go unnoticed)
    victims = [i for i, t in enumerate(traces) if len(t) >= 6 and not any(e.get("post", {}).get("win") for e in t[:5])][:6]
    if not victims:
        raise tlc.MachineryError("no recorded trace long enough for the binding self-test")
    for i in victims:
        bad1 = copy.deepcopy(traces[i])
        bad1[3]["post"]["inflight"][0] += 1
        bad2 = copy.deepcopy(traces[i])
        del bad2[2]
        traces += [bad1, bad2]
    cfg = tlc.write_cfg(os.path.join(ctx.scratch, "pool_trace.cfg"), init="TraceInit", next="TraceNext", constants=consts,
                        invariants=INV, constraints=["Progress"], postcondition="Done", deadlock=False)
    res, prog = tlc.validate_traces("Trace_Pool", cfg, traces, ctx.scratch, timeout=2400)
    ctx.add_tlc(res, "trace validation %s" % name(consts))
    if res.violation:
        rep.report(owner_of_invariant(res.invariant), "trace-inv:%s" % res.invariant,
                   "invariant %s violated in a state of a recorded execution" % res.invariant,
                   {"kind": "trace-inv", "trace": [dict(s) for _, s in res.trace()][-3:]})
        return
    tested = 0
    for j, i in enumerate(victims):
        if prog[i] >= 5:          # the victim itself is accepted at least that far
            # the dropped event must be noticed; events inside a running shutdown() are compared weakly, so it may be
            # noticed a few events later than position 3, but the trace must not be accepted
            if prog[good + 2 * j] != 4 or prog[good + 2 * j + 1] > len(traces[good + 2 * j + 1]):
                raise tlc.MachineryError("binding self-test failed: corrupted/dropped trace accepted (%s, %s)"
                                         % (prog[good + 2 * j], prog[good + 2 * j + 1]))
            tested += 1
    if not tested:
        raise tlc.MachineryError("binding self-test could not run: no victim trace accepted for 5 events")
    ctx.note("binding_selftest", {"corrupted_rejected": tested, "dropped_rejected": tested})
    accepted = 0
    for i in range(good):
        t = traces[i]
        if prog[i] == len(t) + 1:
            accepted += 1
            if any(e["e"].startswith("Replace") or e["e"].startswith("Shutdown") or e["e"] in ("Timeout", "ConnFails") for e in t):
                ctx.nontrivial(("trace", i, len(t)))
            continue
        k = prog[i] - 1
        ev = t[k]
        before = t[k - 1]["post"] if k >= 1 else None
        sig = rp.classify_event(ev, before)
        own = _trace_owner(ev, before, sig)
        what = (WHAT[sig] + ". " if sig in WHAT else "") + \
            "recorded execution rejected by the specification at event %d: %s" % (prog[i], {a: b for a, b in ev.items() if a != "post"})
        rep.report(own, sig, what, {"kind": "trace", "constants": _jc(consts), "events": t[:prog[i]]})
    ctx.sample({"direction": "code->spec", "constants": name(consts),
                "events": [{k: v for k, v in e.items() if k != "post"} for e in traces[0][:14]]})
    ctx.traces_validated += accepted
    ctx.count("traces_recorded", good)
    ctx.count("traces_accepted", accepted)
    ctx.count("trace_events", sum(len(t) for t in traces[:good]))


def run(ctx, pid):
    rep = Reporter(ctx, pid)
    from harness.replay import pool as rp
    sat = rp.submits_at_timeout()           # the design the code under test follows (both are specified, see Pool.tla)
    ctx.note("replacement_requested_at", "the timeout that finds the threshold reached" if sat else "the next borrow")
    g = globals()
    for kn in [x for x in g if x.startswith("K_") and isinstance(g[x], dict)]:
        g[kn] = dict(g[kn], SubmitAtTimeout=sat)
    if ctx.quick:
        res = tlc_exhaustive(ctx, pid, K_MID, "mid", rep)
        if res is None:
            return rep.finish()
        witnesses(ctx, pid, K_MID3, rep)
        n = replay_graph(ctx, pid, K_SMALL, rep, max_walks=1000, label="graph")
        n += replay_graph(ctx, pid, K_CAP, rep, max_walks=200, label="graph_capacity")
        if pid == "C12":
            n += replay_graph(ctx, pid, K_KS, rep, max_walks=200, label="graph_keyspace", prefer=_publish_after_shutdown_window)
        validate_recorded(ctx, pid, K_MID3, 150, rep)
        ctx.note("constants", {"tlc": name(K_MID), "witnesses": name(K_MID3), "replay": [name(K_SMALL), name(K_CAP)],
                               "traces": name(K_MID3)})
    else:
        res = tlc_exhaustive(ctx, pid, K_MID3, "mid3", rep)
        if res is None:
            return rep.finish()
        witnesses(ctx, pid, K_MID3, rep)
        if tlc_exhaustive(ctx, pid, K_BIG, "big", rep, coverage=False, timeout=3000) is None:
            return rep.finish()
        n = replay_graph(ctx, pid, K_SMALL3, rep, label="graph")
        n += replay_graph(ctx, pid, K_CAP, rep, label="graph_capacity")
        n += replay_simulated(ctx, pid, K_BIG, rep, num=1500)
        n += replay_graph(ctx, pid, K_RACE, rep, max_walks=3000, label="graph_3req", prefer=_mark_after_replacement_window)
        if pid == "C12":
            if tlc_exhaustive(ctx, pid, dict(K_MID3, Ks=True), "mid3ks", rep, coverage=False) is None:
                return rep.finish()
            n += replay_graph(ctx, pid, K_KS3, rep, label="graph_keyspace")
            if tlc_exhaustive(ctx, pid, dict(K_MID3, SubmitAtTimeout=not sat), "mid3other", rep, coverage=False) is None:
                return rep.finish()          # the other design satisfies the same invariants
            validate_recorded(ctx, pid, dict(K_MID3, Ks=True), 600, rep)
        validate_recorded(ctx, pid, K_MID3, 1500, rep)
        validate_recorded(ctx, pid, K_BIG, 1500, rep, max_events=80)
        ctx.note("constants", {"tlc": [name(K_MID3), name(K_BIG)], "replay": [name(K_SMALL3), name(K_CAP)],
                               "replay_sampled": name(K_BIG), "traces": [name(K_MID3), name(K_BIG)]})
    rep.finish()
    ctx.evaluations = n + ctx.extra.get("traces_recorded", 0)
    ctx.assumptions += [
        "loop-thread callbacks (process_msg, _on_timeout, socket error) are atomic w.r.t. each other, as in every shipped reactor",
        "client threads, the _replace executor task and shutdown() are interleaved at critical-section grain (suspended only "
        "outside locks and after connection_factory returns); lock-free code runs with the adjacent critical section",
        "while the pool is shut down the conviction policy convicts (return of a dead connection then only re-enters shutdown())",
        "SimConnection reproduces the reactors' close()/push()/read contract; FakeNode's codec is right",
        "stream ids abstracted to requests (id recycling is C09's); small scope: capacity<=3, <=4 requests, <=3 connections, "
        "<=1 failed open, <=1 socket error",
        "Four steps of Pool.tla are specified as C12 needs them (marked INTENDED); where the pinned code differs the replay "
        "reports it under a stable signature and repairs the real objects to go on",
    ]


def replay(ctx, pid, obj):
    from harness.replay import pool as rp
    kind = obj.get("kind")
    if kind == "walk":
        consts = dict(obj["constants"])
        consts["Reqs"] = set(consts["Reqs"])
        h = rp.PoolHarness(consts)
        acts = obj["actions"] + ([obj["divergence"]["action"]] if obj.get("divergence") else [])
        for i, a in enumerate(acts, 1):
            print("-> %d %s r=%s c=%s f=%s" % (i, a["name"], a["r"], a["c"], a["f"]))
            try:
                h.do(a)
            except Exception as ex:
                print("   cannot perform: %s: %s" % (type(ex).__name__, ex))
                break
            p = h.project()
            print("   ", {k: p[k] for k in ("inflight", "orph", "reg", "closed", "cur", "trash", "replacing", "shutdown", "queued", "st", "on")})
            r = obj.get("repairs", {}).get(str(i))
            if r:
                print("   (known leak %s: repaired to go on)" % r["signature"])
                h.repair(r["signature"], r["info"])
        if obj.get("divergence"):
            print("specification vs code after the last step:", obj["divergence"]["diff"])
        print("pool connections still open:", h.open_pool_connections())
        h.teardown()
    else:
        for e in obj.get("events", obj.get("trace", [])):
            print(e)
