"""C30 - prepared-statement binding and routing keys are consistent (spec/Bind.tla).

Spec : Bind.tla defines, for every bind metadata shape (1..MaxCols markers, 0..MaxPk of them partition key
       components at any positions and in any key order, optionally a key column the statement does not bind),
       every positional list (shorter / exact / one longer) and every dict (any names missing, an extra name) of
       entries {value, None, UNSET_VALUE}, and every protocol version, the answer the property demands: the slots
       in bind-marker order or a rejection, and the routing key (single component / length-prefixed composite).
TLC  : enumerates all cases, checks the clauses of the property on the definition (C30Invariants), dumps them.
Bind : every case is evaluated on a real PreparedStatement (built by the real PREPARED decoder +
       PreparedStatement.from_message) / BoundStatement.bind / .values / .routing_key; positional and by-name
       binding of the same assignment are also compared with each other directly.
"""
import os

from harness import tlc
from harness.replay import bind as B

META = {
    "property_id": "C30",
    "engine": "Bind",
    "technique": "TLA+ reference definition of bind()/routing_key; TLC enumerates every metadata shape x value list/dict x "
                 "protocol version and checks the property's clauses on it; every enumerated case is evaluated on real "
                 "PreparedStatement/BoundStatement objects",
    "level": "model_checking",
    "level_text": "Exhaustive over the bounded case space: 1..MaxCols bind markers, every injective choice and order of 0..3 "
                  "partition key components, positional lists of every length 0..n+1 and dicts with every subset of names "
                  "(plus an extra name), entries from {value(s), None, UNSET_VALUE}, protocol versions 3/4/5. TLC proves the "
                  "clauses (positional = by-name, unset only from v4, key components never unset, extra positional values "
                  "rejected, routing key splits back into the key components) on the definition; each case is then run on "
                  "the real objects and .values, raised-or-not and .routing_key must equal the definition.",
    "level_note": "Trusted: TLC, the transcription of the statement into Bind.tla, harness/wire.py (PREPARED body). Column types "
                  "are int/text only (value encodings are Codec.tla's concern); MaxCols = 3 with one int value and two text values (a non-empty and the EMPTY string, whose serialization b'' is a key component like any other) per column (quick) / 4 with one value and 3 with two values incl. a negative int and the empty string (thorough). Where the "
                  "statement is silent both outcomes are admitted: a short positional list before v4 that still covers the "
                  "partition key may be rejected or passed on as is; the routing key of a statement whose key component is "
                  "null is unconstrained. Rejection = ValueError or KeyError.",
    "design_ref": "5.6 C30",
}

WITNESSES = ["Witness_PaddedUnset", "Witness_KeyOrderNotMarkerOrder", "Witness_ShortBeforeV4", "Witness_NullKeyComponent",
             "Witness_EmptySingleKey", "Witness_EmptyInComposite"]


def constants(ctx):
    """One TLC run per entry.  thorough: 4 markers with one value per column, and 3 markers with two values."""
    base = {"MaxPk": 3, "PVs": {3, 4, 5}, "Partial": True, "MTypes": {"int"}, "MMaxPk": 1, "MOps": {"get"},
            "MOrders": {"base_first"}, "MFull": False, "MLayouts": {"keys_first"}, "MLayoutMaxPk": 1, "MPairTypes": set()}
    if ctx.quick:            # text columns: a non-empty and the EMPTY string (an empty key component is not a missing one)
        return [dict(base, MaxCols=3, NVals=1, NTextVals=2)]
    return [dict(base, MaxCols=4, NVals=1, NTextVals=1), dict(base, MaxCols=3, NVals=2, NTextVals=2)]


class Env:
    def __init__(self):
        self.cache = {}

    def prepared(self, case):
        key = (case["n"], tuple(case["pk"]), bool(case["partial"]), case["pv"])
        if key not in self.cache:
            types = ["int" if c % 2 == 1 else "text" for c in range(1, case["n"] + 1)]
            self.cache[key] = B.make_prepared(types, list(case["pk"]), bool(case["partial"]), case["pv"])
        return self.cache[key]


def version_class(pv):
    return "v3" if pv < 4 else "v4+"


def evaluate(env, case):
    try:
        prep = env.prepared(case)
    except Exception as ex:               # noqa: a mutated driver may fail while building the prepared statement
        return {"raised": "prepare:" + type(ex).__name__, "rejected": False, "values": None, "rk": None, "message": str(ex)[:200]}
    return B.observe_bind(prep, B.bind_args(case))


def compare(env, st):
    """-> None when the real objects answer as the definition does, else (what, signature, replay)."""
    case, out = st["case"], st["out"]
    obs = evaluate(env, case)
    kinds = "+".join(sorted(out["kinds"])) or "bound"
    head = "%s:%s:%s" % (case["kind"], version_class(case["pv"]), kinds)
    rep = {"case": case, "spec": {"accept": out["accept"], "reject": out["reject"], "kinds": sorted(out["kinds"]),
                                  "slots": B.spec_slots(out["slots"]), "rk": [out["rk"]["t"], list(out["rk"]["b"])]},
           "code": obs}
    if obs["raised"]:
        if not obs["rejected"]:
            return ("bind() crashed with %s (%s) instead of binding or rejecting" % (obs["raised"], obs.get("message")),
                    head + ":crash:" + obs["raised"], rep)
        if not out["reject"]:
            return ("bind() rejected (%s: %s) an assignment the property accepts" % (obs["raised"], obs.get("message")),
                    head + ":rejected", rep)
        return None
    if not out["accept"]:
        return ("bind() accepted an assignment the property rejects (%s); values=%s routing_key=%s"
                % (kinds, obs["values"], obs["rk"]), head + ":accepted", rep)
    if obs["values"] != rep["spec"]["slots"]:
        return ("bound values differ: spec %s code %s" % (rep["spec"]["slots"], obs["values"]), head + ":values", rep)
    rk = out["rk"]
    if rk["t"] == "none" and obs["rk"] != ["none"]:
        return ("routing key %s for a statement without (complete) partition key" % (obs["rk"],), head + ":routing_key:unexpected", rep)
    if rk["t"] == "bytes" and obs["rk"] != ["bytes", list(rk["b"])]:
        return ("routing key differs: spec %s code %s" % (list(rk["b"]), obs["rk"]),
                head + ":routing_key" + (":raised:" + obs["rk"][1] if obs["rk"][0] == "raised" else ""), rep)
    return None


def as_map_case(case):
    """The dict that makes the same assignment as the positional list of `case` (Bind.tla AsMap)."""
    ents = list(case["ents"]) + [{"k": "missing", "ty": "int", "v": {"i": 0, "s": ()}}] * (case["n"] - len(case["ents"]))
    d = dict(case)
    d.update(kind="map", ents=tuple(ents), extra=False)
    return d


def agreement(env, case):
    """Direct code-vs-code comparison of positional and by-name binding; None if they agree."""
    a = evaluate(env, case)
    b = evaluate(env, as_map_case(case))
    pa = (bool(a["raised"]), a["values"], a["rk"])
    pb = (bool(b["raised"]), b["values"], b["rk"])
    if pa != pb:
        return {"case": case, "positional": a, "by_name": b}
    return None


def witness_flags(st):
    """The antecedents of Witness_* in Bind.tla, evaluated on one enumerated case."""
    case, out = st["case"], st["out"]
    return {
        "Witness_PaddedUnset": case["kind"] == "seq" and out["accept"] and len(case["ents"]) < case["n"] == len(out["slots"]),
        "Witness_KeyOrderNotMarkerOrder": bool(out["accept"] and out["rk"]["t"] == "bytes" and len(case["pk"]) >= 2 and
                                               case["pk"][0] > case["pk"][1]),
        "Witness_ShortBeforeV4": bool(out["accept"] and out["reject"]),
        "Witness_NullKeyComponent": bool(out["accept"] and out["rk"]["t"] == "any"),
        "Witness_EmptySingleKey": bool(out["accept"] and out["rk"]["t"] == "bytes" and len(case["pk"]) == 1 and not out["rk"]["b"]),
        "Witness_EmptyInComposite": bool(out["accept"] and out["rk"]["t"] == "bytes" and len(case["pk"]) >= 2 and
                                         any(not out["slots"][j - 1]["b"] for j in case["pk"])),
    }


def run(ctx):
    runs = constants(ctx)
    env = Env()
    n = agree = 0
    classes = {}
    by_signature = {}
    reached = dict.fromkeys(WITNESSES, False)
    probes = {}
    for consts in runs:
        label = "MaxCols=%d NVals=%d NTextVals=%d" % (consts["MaxCols"], consts["NVals"], consts["NTextVals"])
        cfg = tlc.write_cfg(os.path.join(ctx.scratch, "bind.cfg"), constants=consts, invariants=["C30Invariants"], deadlock=False)
        res, states = B.enumerate_cases("Bind", cfg, ctx.scratch, timeout=900 if ctx.quick else 3000)
        ctx.add_tlc(res, "exhaustive " + label)
        if res.violation:
            ctx.violation("TLC: %s violated on Bind.tla" % res.invariant, replay={"trace": [dict(s) for _, s in res.trace()]},
                          signature="spec:%s" % res.invariant)
            return
        every = res.distinct // 3 + 1
        for st in states:
            case, out = st["case"], st["out"]
            r = compare(env, st)
            n += 1
            for w, hit in witness_flags(st).items():
                reached[w] = reached[w] or hit
            cls = (case["kind"], version_class(case["pv"]),
                   "+".join(sorted(out["kinds"])) or ("bound-or-rejected" if out["reject"] else "bound"), "rk=" + out["rk"]["t"])
            classes[cls] = classes.get(cls, 0) + 1
            if out["kinds"] or out["rk"]["t"] == "bytes" or any(s["t"] == "unset" for s in out["slots"]):
                ctx.nontrivial(n)
            if n % every == 7:
                ctx.sample({"case": case, "out": out})
            if "composite" not in probes and out["accept"] and out["rk"]["t"] == "bytes" and len(case["pk"]) >= 2:
                probes["composite"] = st
            if "too_many" not in probes and out["kinds"] == frozenset({"too_many"}):
                probes["too_many"] = st
            if r:
                by_signature[r[1]] = by_signature.get(r[1], 0) + 1
                if by_signature[r[1]] == 1:           # one report per distinct class of failure; the count goes to the evidence
                    ctx.violation("%s | case n=%d pk=%s partial=%s pv=%d %s %r" % (
                        r[0], case["n"], list(case["pk"]), case["partial"], case["pv"], case["kind"], B.bind_args(case)),
                        replay=r[2], signature=r[1])
            if case["kind"] == "seq" and len(case["ents"]) <= case["n"] and (case["pv"] >= 4 or len(case["ents"]) == case["n"]):
                agree += 1
                d = agreement(env, case)
                sig = "agreement:%s:positional-vs-by-name" % version_class(case["pv"])
                if d:
                    by_signature[sig] = by_signature.get(sig, 0) + 1
                if d and by_signature[sig] == 1:
                    ctx.violation("positional and by-name binding of the same assignment differ: %s" % d,
                                  replay={"agreement": d}, signature=sig)
    ctx.note("constants", [{k: (sorted(v) if isinstance(v, (set, frozenset)) else v) for k, v in c.items()
                            if k in ("MaxCols", "MaxPk", "PVs", "NVals", "NTextVals", "Partial")} for c in runs])
    ctx.note("exhaustive", True)
    # vacuity: the interesting antecedents must occur among the enumerated cases (same predicates as Witness_* in
    # Bind.tla); the thorough tier also has TLC violate each Witness_* on the smallest constants that reach them
    if not all(reached.values()):
        raise tlc.MachineryError("vacuity: not reached: %s" % sorted(k for k, v in reached.items() if not v))
    if not ctx.quick:
        wconsts = dict(runs[0], MaxCols=2, NVals=1, NTextVals=2, Partial=False)
        for w in WITNESSES:
            wcfg = tlc.write_cfg(os.path.join(ctx.scratch, w + ".cfg"), constants=wconsts, invariants=[w], deadlock=False)
            wres = tlc.check_model("Bind", wcfg, ctx.scratch, timeout=600)
            if wres.invariant != w:
                raise tlc.MachineryError("vacuity witness %s was not reached" % w)
    ctx.note("vacuity_witnesses_reached", len(WITNESSES))
    ctx.evaluations = n + agree
    ctx.traces_validated = n
    ctx.note("positional_vs_by_name_pairs", agree)
    ctx.note("failing_cases_by_signature", by_signature)
    ctx.note("prepared_statements_built", len(env.cache))
    ctx.note("case_classes", {"/".join(k): v for k, v in sorted(classes.items())})
    # binding self-test: corrupted expectations must be noticed
    rejected = 0
    probe = probes["composite"]
    bad = dict(probe["out"])
    bad["rk"] = {"t": "bytes", "b": tuple(probe["out"]["rk"]["b"][:-1])}          # composite without the trailing 0
    rejected += bool(compare(env, {"case": probe["case"], "out": bad}))
    bad = dict(probe["out"])
    bad["slots"] = tuple(reversed(probe["out"]["slots"]))
    rejected += bool(compare(env, {"case": probe["case"], "out": bad}))
    probe = probes["too_many"]
    bad = dict(probe["out"], accept=True, reject=False)
    rejected += bool(compare(env, {"case": probe["case"], "out": bad}))
    # when the code under test already diverges from the definition the probe cases may themselves be failing ones;
    # the self-test is then not meaningful and must not mask the violation with a machinery failure
    if rejected != 3 and not by_signature:
        raise tlc.MachineryError("binding self-test failed: %d of 3 corrupted expectations detected" % rejected)
    ctx.note("binding_selftest", {"corrupted_rejected": rejected, "meaningful": not by_signature})
    ctx.assumptions += ["column types int/text, one or two values per column; value encodings belong to Codec.tla",
                        "rejection = ValueError or KeyError raised by bind()",
                        "before v4 a short positional list that covers the partition key may be rejected or kept short (statement silent)",
                        "routing key unconstrained when a partition key component is bound to None"]


def replay(ctx, obj):
    from harness.tlaval import to_py     # noqa
    env = Env()
    if "agreement" in obj:
        case = obj["agreement"]["case"]
        d = agreement(env, case)
        print("positional:", evaluate(env, case))
        print("by name   :", evaluate(env, as_map_case(case)))
        if d:
            ctx.violation("replayed: positional and by-name binding still differ", replay=obj)
        return
    case = obj["case"]
    obs = evaluate(env, case)
    print("case: n=%s pk=%s partial=%s pv=%s %s values=%r" % (case["n"], case["pk"], case["partial"], case["pv"], case["kind"],
                                                           B.bind_args(case)))
    print("spec:", obj["spec"])
    print("code:", obs)
    spec = obj["spec"]
    out = {"accept": spec["accept"], "reject": spec["reject"], "kinds": frozenset(spec["kinds"]),
           "slots": tuple({"t": s[0], "b": tuple(s[1]) if len(s) > 1 else ()} for s in spec["slots"]),
           "rk": {"t": spec["rk"][0], "b": tuple(spec["rk"][1])}}
    r = compare(env, {"case": case, "out": out})
    if r:
        ctx.violation("replayed: " + r[0], replay=obj, signature=r[1])
