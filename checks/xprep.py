"""XPREP - extension beyond the listed properties: the prepared-statement cache (spec/PrepareCache.tla).

Not registered in MANIFEST.json (the property list is fixed); run with `./check XPREP --tier thorough`.
It documents one finding on the pinned tree (not a listed property, hence not in known_findings.json as a
suppression for a claimed check): statements prepared under the session's keyspace are re-prepared without a
keyspace when a host comes back up (findings/C19_reprepare_on_up_drops_session_keyspace.py)."""
from checks import _prepcache

META = {
    "property_id": "XPREP",
    "engine": "PrepareCache",
    "technique": "TLA+ spec of the prepared-statement cache and host-up re-preparation; every (state, action) pair replayed on a simulated cluster; recorded runs validated by TLC",
    "level": "model_checking",
    "level_text": _prepcache.LEVEL_TEXT,
    "level_note": "Extension, not a listed property. One session keyspace, PREPAREs on other hosts never fail, restart noticed at once.",
    "design_ref": "17 (extensions)",
    "extension": True,
}


def run(ctx):
    _prepcache.run_prepcache(ctx)


def replay(ctx, obj):
    _prepcache.replay_prepcache(ctx, obj)
