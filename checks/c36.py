"""C36 - cqlengine column values are stored as the core driver would store them.

Spec: spec/ColumnValues.tla (EXTENDS Codec.tla, INSTANCEs Calendar.tla) - for every cqlengine column type the CQL value a
      Python value DENOTES (a date as its day count, a time as nanoseconds of the day, a datetime - naive: read as UTC;
      aware: wall-clock fields minus the UTC offset in force at the reading - as its instant in epoch milliseconds, ...)
      and the bytes Cassandra's serializers give that value (Codec.tla's encoders and composite grammar; wide numbers in
      the byte limbs of Limbs.tla).
TLC : enumerates (column type, Python value) cases: 20 scalar column types x boundary values x the Python forms a value
      comes in (datetime.date / util.Date / 'yyyy-mm-dd' / datetime; naive / aware / date; ...), lists, sets, maps, tuples,
      user defined types and nested composites of them; invariants on the specification: the bytes of a timestamp decode
      to the instant, the UTC reading of the instant denotes it again (ExactInstant), a reading without an exact
      millisecond lies between the two accepted neighbours, all forms of a date / time denote Calendar.tla's value,
      conversions sharing one zone object do not influence each other (CallsIndependent).
Bind: every case is built as a real cqlengine column and a real Python value; column.to_database(value) (also after
      column.validate, the Model.save path), serialised by the core type at protocol v4 and v5, must be the
      specification's bytes - and so must the core type's serialize of the ORIGINAL value.
"""
from harness import tlc
from harness.replay import codec as CD
from harness.replay import colvalues as CV
from checks import _colvalues as C

SCOPE = ("ENUMERATED, not proved for all inputs: every cqlengine column class that maps to a CQL type (Text, Ascii, Integer, "
         "BigInt, SmallInt, TinyInt, VarInt, Boolean, Float, Double, Decimal, UUID, TimeUUID, Blob, Inet, Date, Time, DateTime, "
         "Duration, Counter; List / Set / Map / Tuple / UserDefinedType over them and 9 nested shapes) with boundary values per "
         "type. DateTime: readings on 7 (14) dates from 0001-01-01 to 9999-12-31 (incl. 1969-12-31, 1970-01-01, a summer and an "
         "autumn-transition date) x 5 (6) times of day x 9 (15) microsecond values (0, 1, 999, 1000, 1999, 999000, 999500, "
         "999999, ...) x {naive, 4 (8) fixed offsets incl. negative and +05:30, 2 (6) zones whose offset at the reading differs "
         "from their offset on 1970-01-01} and plain dates; plus 16 (48) SEQUENCES of 2 (2 - 3) conversions whose datetimes share ONE "
         "tzinfo object with different offsets at the readings (winter / summer, both passes of the repeated hour, a zone that "
         "changed its standard offset), converted one after the other by the same column; the zone is a tzinfo that answers with the offset in force at the "
         "reading and with the 1970 offset for 1970-01-01 - real tz databases, readings between the enumerated ones, arbitrary "
         "microsecond counts are not enumerated. Integers: wide values at byte-length boundaries only. Float / Double: 11 "
         "IEEE bit patterns each (layout only: the rounding of arbitrary doubles to single precision is not covered). "
         "Collections hold at most 2 entries (1 below the top level); null elements inside list / set / map are not "
         "enumerated (cqlengine's validate forbids them), null tuple / UDT fields are.")

META = {
    "property_id": "C36",
    "engine": "ColumnValues",
    "technique": "TLA+ reference definition of the CQL value a Python value denotes per column type (calendar and instants from "
                 "Calendar.tla, bytes from Codec.tla's encoders, wide numbers in limbs); TLC enumerates (column type, value, Python "
                 "form) cases; each is run through the real cqlengine column's to_database and the core type's serialize and "
                 "compared byte for byte with the specification and with the core encoding of the original value",
    "level": "model_checking",
    "level_text": "TLC exhaustively enumerates the configured column types x boundary values x Python forms and checks on the "
                  "specification that timestamp bytes decode to the denoted instant, that the instant's UTC reading denotes it "
                  "again, and that every form of a date / time denotes the same value; every case is then evaluated on the real "
                  "cqlengine column (query path and save path) and on the real core type at protocol v4 and v5: the stored bytes "
                  "must be the specification's (sets / maps up to entry order), for both. Exhaustive over the enumerated space.",
    "level_note": SCOPE + " Trusted: TLC; Codec.tla's encoders; Calendar.tla / Limbs.tla (every wide number is recomputed by the "
                  "harness with Python integers, struct and datetime.date.toordinal); the harness's construction of columns, "
                  "values and time zones (harness/replay/colvalues.py). Not judged (recorded as open): which neighbouring "
                  "millisecond a datetime with sub-millisecond microseconds is stored as (both accepted; the documentation says "
                  "'truncate', the core driver rounds towards zero), instants outside the years 1..9999 of UTC, forms the core "
                  "type refuses (a uuid given as text), floats assigned to Decimal columns.",
    "design_ref": "5.7 C36",
}


def key_of(st):
    import hashlib
    import json
    return hashlib.blake2b(json.dumps([st["ty"], st["val"]], sort_keys=True).encode(), digest_size=10).hexdigest()


def nontrivial(st):
    if CV.is_calls(st["ty"]):
        return True
    if CD.is_scalar(st["ty"]):
        return len(st["enc"]) > 1
    return len(st["val"]) > 0


def size_of(st):
    return (0 if CV.is_calls(st["ty"]) else CD.depth(st["ty"]), len(st["enc"]), key_of(st))


def crosscheck(cases):
    for s in cases:
        if CV.is_calls(s["ty"]):
            CV.crosscheck_calls(s)
        elif CD.is_scalar(s["ty"]):
            CV.crosscheck_leaf(s["ty"][0], s["val"], bytes(s["enc"]).hex())


def evaluate(ctx, env, cases, leaf_encs, groups, opens, per):
    for st in cases:
        f = C.family_of(st["ty"])
        per[f] = per.get(f, 0) + 1
        n, devs, op = CV.judge(env, st, leaf_encs)
        ctx.evaluations += n
        ctx.traces_validated += 1
        if nontrivial(st):
            ctx.nontrivial(key_of(st))
        if per[f] % 499 == 1:
            ctx.sample(CV.describe(st), limit=8)
        for k in op:
            opens[k] = opens.get(k, 0) + 1
        for sig, msg, detail in devs:
            groups.setdefault(sig, []).append((st, msg, detail))


def selftest(ctx, env, cases, leaf_encs):
    """binding self-test: corrupted expectations must change the judgement"""
    V = CV.verdict

    def differs(good, bad, le=leaf_encs):
        return V(CV.judge(env, good, leaf_encs, always_whole=True)[1]) != V(CV.judge(env, bad, le, always_whole=True)[1])

    def flip(enc):
        return enc[:-1] + [(enc[-1] + 1) % 256]
    ts = next(s for s in cases if s["ty"] == ["timestamp"] and s["expect"] == "ok" and s["val"][0] == "aware"
              and s["val"][1]["zone"] == [330, 330] and s["val"][1]["us"] == 0)
    bad_ts = dict(ts, enc=flip(ts["enc"]), img=[flip(ts["enc"])])                   # "one millisecond later"
    d = next(s for s in cases if s["ty"] == ["date"] and s["val"] == ["text", [2024, 2, 29]])
    bad_d = dict(d, enc=flip(d["enc"]), img=[flip(d["enc"])])                       # "2024-03-01"
    lst = next(s for s in cases if s["ty"] == ["list", ["int"]] and len(s["val"]) == 2 and s["val"][0] != s["val"][1])
    bad_l = dict(lst, enc=lst["enc"][:4] + lst["enc"][12:] + lst["enc"][4:12])     # "the list in the other order"
    tup = next(s for s in cases if s["ty"][0] == "tuple" and len(s["ty"][1]) == 2 and s["val"][0] and not s["val"][1])
    bad_t = dict(tup, enc=tup["enc"][:-4] + [0, 0, 0, 0])                           # "a null field is an empty value"
    calls = next(s for s in cases if CV.is_calls(s["ty"]) and s["enc"][:8] != s["enc"][8:16])
    bad_c = dict(calls, enc=calls["enc"][8:16] + calls["enc"][:8] + calls["enc"][16:])   # "each stored as the other's instant"
    noticed = [differs(ts, bad_ts), differs(d, bad_d), differs(lst, bad_l), differs(tup, bad_t), differs(calls, bad_c)]
    try:                                         # a wrong wide number in the specification's answer: the cross-check
        CV.crosscheck_leaf("timestamp", ts["val"], bytes(flip(ts["enc"])).hex())
        noticed.append(False)
    except CV.Machinery:
        noticed.append(True)
    if not all(noticed):
        raise tlc.MachineryError("binding self-test failed: corrupted expectations noticed = %s" % noticed)
    ctx.note("binding_selftest", {"corrupted_rejected": len(noticed)})


def report(ctx, groups, leaf_encs):
    for sig in sorted(groups):
        members = groups[sig]
        st, msg, detail = min(members, key=lambda m: size_of(m[0]))
        kinds = sorted({CV.cql_name(m[0]["ty"]) for m in members})
        used = {} if CD.is_scalar(st["ty"]) or CV.is_calls(st["ty"]) else {k: sorted(leaf_encs[k]) for k in {CV.leaf_key(a, b) for a, b in CV.leaves_of(st["ty"], st["val"])}}
        ctx.violation("%s; %d cases in column types %s%s; smallest: %s"
                      % (msg, len(members), kinds[:6], " ..." if len(kinds) > 6 else "", {k: v for k, v in detail.items() if k != "value"}),
                      replay={"state": st, "cases": len(members), "leaf_encs": used}, signature=sig)


def run(ctx):
    env = CV.Env()
    groups, opens, per_family, leaf_encs = {}, {}, {}, {}
    if ctx.quick:
        runs = [("all column types, small alphabets", C.FAMILIES, False)]
    else:
        runs = [("scalar column types, large alphabets; sequences of conversions with one zone object", ["scalar", "calls"], True),
                ("lists, sets, tuples, user defined types, nested shapes", ["list", "set", "tuple", "udt", "nest"], True),
                ("maps", ["map"], True)]
    try:
        everything = []
        for label, fams, rich in runs:
            cases = C.enumerate_cases(ctx, fams, rich, label)
            if cases is None:
                return
            crosscheck(cases)
            leaf_encs.update(C.leaf_encodings(cases))         # scalar cases first: the leaves of the composites that follow
            evaluate(ctx, env, cases, leaf_encs, groups, opens, per_family)
            everything += cases
        selftest(ctx, env, everything, leaf_encs)
    except CV.Machinery as ex:
        raise tlc.MachineryError("binding: %s" % ex)
    ctx.note("exhaustive", True)
    ctx.note("cases_per_family", per_family)
    ctx.note("open_not_judged", dict(sorted(opens.items())))
    ctx.note("protocol_versions_run", list(CV.PVS))
    ctx.note("rule", "one case = one TLC state of ColumnValues.tla (column type tree, abstract Python value incl. its form); "
                     "evaluations = serialisations compared (3 paths x 2 protocol versions, per leaf and per composite); "
                     "non-trivial = a scalar stored in more than one byte or a composite with at least one entry / field")
    report(ctx, groups, leaf_encs)
    ctx.assumptions += [SCOPE, "a naive datetime is read as UTC (the driver's documented convention)",
                        "entries of a set / map may be written in any order; Cassandra sorts on its side"]


def replay(ctx, obj):
    env = CV.Env()
    st = obj["state"]
    print("case: %s" % CV.describe(st))
    leaf_encs = {k: set(v) for k, v in (obj.get("leaf_encs") or {}).items()}
    n, devs, op = CV.judge(env, st, leaf_encs)
    for sig, msg, detail in devs:
        print("  %s: %s" % (sig, msg))
    for sig in sorted({d[0] for d in devs}):
        ctx.violation("replayed: still deviates: %s" % sig, replay=obj, signature=sig)
    if not devs:
        print("  no deviation")
