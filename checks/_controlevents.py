"""Shared driver of XEVENTS (spec/ControlEvents.tla bound to the real Cluster / ControlConnection / handlers).

Per run:
  1. deviation probes: fixed schedules run on the real objects decide which of the specification's named deviations
     (behaviours that break a property) the code exhibits; each one present is reported as a violation with the
     schedule as replay file;
  2. TLC: the model *as built* (repaired only where the probes found the code repaired) is explored exhaustively for
     several small configurations, its state graph dumped; the *intended* model (every deviation repaired) is checked
     against all invariants and action properties; vacuity witnesses and action coverage are required;
  3. spec -> code: walks covering every edge of the as-built graphs are replayed into real clusters (worker
     processes), the projected state compared after every step; walks ending after shutdown() returned are followed by
     the after-return probe;
  4. code -> spec: seeded random runs of the real objects are recorded and validated by TLC against
     Trace_ControlEvents.tla; binding self-test (corrupted field, dropped event, flipped expectation must be rejected).
"""
import copy
import os
import time

from harness import tlc

ALL_DEV = ["D_handler_close", "D_lost_refresh", "D_func_dedup", "D_stale_clear"]
DEV_BREAKS = {"D_handler_close": ["InstalledOpen"], "D_lost_refresh": ["Fresh"], "D_func_dedup": ["OnePending"],
              "D_stale_clear": ["OneHandler"]}
DEV_WHAT = {
    "D_handler_close":
        "_ReconnectionHandler.run closes the connection it was given in `finally`; for the control connection's handler "
        "that is the connection on_reconnection has just installed with _set_new_connection: after every reconnection made "
        "by the _ControlReconnectionHandler the control connection is closed, no event is received, and nothing is scheduled "
        "to repair it (only the idle heartbeat, if enabled, or the next failing refresh starts another reconnection)",
    "D_lost_refresh":
        "a node-list refresh that fails on a defunct control connection is turned by _signal_error into a down signal for that "
        "connection's host only; when the host is already down, or the connection is replaced before on_down runs, nobody "
        "reconnects or refreshes again: a NEW_NODE / REMOVED_NODE received on the new, not yet installed connection (it is "
        "registered before it is installed) is consumed and the metadata stays stale",
    "D_stale_clear":
        "a _ControlReconnectionHandler that is cancelled and replaced (a concurrent _reconnect found no host) after it has "
        "passed its `if not self._cancelled` still installs its connection and runs its callback "
        "_get_and_set_reconnection_handler(None), which clears the reference to the NEWER handler: that one keeps "
        "retrying, can no longer be cancelled by the next _reconnect or replaced, and ControlConnection.on_down believes no "
        "reconnection is under way - two reconnection loops can then run side by side",
    "D_func_dedup":
        "schedule_unique does not recognise a repeated SCHEMA_CHANGE event for a FUNCTION / AGGREGATE: the event carries a "
        "UserFunctionDescriptor / UserAggregateDescriptor object without __eq__ / __hash__, so every event inside the "
        "window schedules its own refresh_schema",
}
INVARIANTS = ["TypeOK", "OnePending", "EventScheduled", "RingEventScheduled", "WindowOff", "RemovedOnce", "InstalledOpen",
              "Fresh", "OneHandler", "KeepsTrying", "SchedFrozen", "MetaFrozen", "NoLeak"]
PROPERTIES = ["DownEvent", "DownTask"]
WITNESSES = ["Witness_Dedup", "Witness_SecondAfterRun", "Witness_HandlerInstall", "Witness_SwitchedHost",
             "Witness_EventOnNewConn", "Witness_LostRingEvent", "Witness_TwoReconnects", "Witness_ShutMidSwitch",
             "Witness_RefreshFails", "Witness_RetryLoop", "Witness_RemovedByEvent", "Witness_FreshAfterLoss",
             "Witness_CancelledLate"]
ALL_KINDS = {"NEW", "MOVED", "REMOVED", "UP", "DOWN", "SCHEMA"}
LEVEL_TEXT = ("TLC explores every interleaving of pushed events (topology, status, schema), scheduler hand-overs, executor "
              "tasks, control-connection deaths, heartbeat notices, nodes refusing connections, membership changes, the steps "
              "of concurrent control reconnections and the stretches of Cluster.shutdown for small bounds and checks the "
              "de-duplication, window, down/removed, reconnection-handler, freshness and shutdown invariants; every edge of "
              "the state graphs is replayed into a real Cluster/ControlConnection over FakeNodes with the projected state "
              "compared after each step, and seeded random runs of the real objects are validated by TLC against the "
              "specification.")


def C(hosts=(1, 2, 3), ring0=(1, 2), kinds=(), targets=("ks",), func=(), topo=True, schema=True, ev=0, ring=0, faults=0, beats=0):
    return {"Hosts": set(hosts), "Ring0": set(ring0), "Targets": set(targets), "FuncTargets": set(func), "Kinds": set(kinds),
            "TopoOn": bool(topo), "SchemaOn": bool(schema), "MaxEvents": ev, "MaxRing": ring, "MaxFaults": faults, "MaxBeats": beats}


def graph_configs(quick):
    """Configurations whose as-built state graph is replayed edge by edge (smallest first)."""
    both = dict(targets=("ks", "ks.f(int)"), func=("ks.f(int)",))
    out = [
        ("windows-off", C(kinds={"NEW", "MOVED", "SCHEMA", "REMOVED"}, topo=False, schema=False, ev=2)),
        ("schema", C(kinds={"SCHEMA"}, ev=3, **both)),
        ("handler", C(hosts=(1,), ring0=(1,), faults=3, beats=2)),
        ("ring", C(ring=1, faults=1)),
        ("events", C(kinds={"NEW", "REMOVED", "UP", "SCHEMA"}, ev=2, **both)),
        ("reconnect", C(hosts=(1, 2), kinds={"DOWN"}, ev=1, faults=1, beats=1)),
        ("status", C(hosts=(1, 2), kinds={"DOWN", "UP"}, ev=2)),
    ]
    if not quick:
        out += [
            ("ring-heartbeat", C(ring=1, faults=1, beats=1)),
            ("events-all", C(kinds=ALL_KINDS, ev=2, **both)),
            ("reconnect-2faults", C(hosts=(1, 2), kinds={"DOWN"}, ev=1, faults=2, beats=1)),
            ("reconnect-3hosts", C(kinds={"DOWN", "NEW"}, ev=1, faults=2, beats=1)),
        ]
    return out


def intended_only(quick):
    """Larger instances checked by TLC on the intended model only (no replay)."""
    both = dict(targets=("ks", "ks.f(int)"), func=("ks.f(int)",))
    if quick:
        return [("ring-heartbeat", C(ring=1, faults=1, beats=1))]
    return [("events-3", C(kinds=ALL_KINDS, ev=3, **both)),
            ("mixed", C(kinds={"DOWN", "NEW"}, ev=1, ring=1, faults=1)),
            ("ring-2", C(ring=2, faults=1)),
            ("reconnect-3faults", C(hosts=(1, 2), kinds={"DOWN"}, ev=1, faults=3, beats=1)),
            ("handler-5faults", C(hosts=(1,), ring0=(1,), faults=5, beats=3)),
            ("handler-2hosts", C(hosts=(1, 2), faults=4, beats=2)),
            ("ring-2faults", C(ring=1, faults=2, beats=1))]


def expected_actions(c):
    """What must occur as the `act` of some state of the exhaustive graph (vacuity guard on the actions; finer than TLC's
    -coverage, which costs a factor in run time: executor tasks by kind, reconnection steps by kind and origin)."""
    exp = {"Exec:none", "ShutA", "ShutB", "ShutC"}
    ev = c["MaxEvents"] and c["Kinds"]
    if ev:
        exp |= {"Push:" + k for k in c["Kinds"]}
        if c["Kinds"] & {"REMOVED"}:
            exp |= {"Fire:RemoveHost", "Exec:RemoveHost"}
        if c["TopoOn"] and c["Kinds"] & {"NEW", "MOVED"}:
            exp |= {"Fire:RefreshIf", "Exec:RefreshIf"}
        if c["SchemaOn"] and "SCHEMA" in c["Kinds"]:
            exp |= {"Fire:Schema", "Exec:Schema"}
        if "UP" in c["Kinds"]:
            exp |= {"Fire:OnUp", "Exec:OnUp"}
            if c["Hosts"] - c["Ring0"]:
                exp |= {"Fire:Refresh", "Exec:Refresh"}
        if "DOWN" in c["Kinds"]:
            exp |= {"Exec:OnDown", "Fire:HRecon", "Exec:HRecon", "Exec:Reconnect", "RcStep:direct.try", "RcStep:direct.set"}
    if c["MaxRing"]:
        exp |= {"RingAdd", "RingRemove", "Exec:RefreshIf", "Exec:RemoveHost"}
    if c["MaxFaults"]:
        exp |= {"NodeMode", "ConnDie"}
    if c["MaxBeats"] and c["MaxFaults"]:
        exp |= {"Heartbeat", "Exec:Reconnect", "RcStep:direct.try", "RcStep:direct.set"}
    if c["MaxBeats"] and c["MaxFaults"] >= len(c["Ring0"]) + 1:
        exp |= {"RcStep:direct.nohost", "Fire:CRecon", "Exec:CRecon"}
    if c["MaxBeats"] and c["MaxFaults"] >= len(c["Ring0"]) + 2:
        exp |= {"RcStep:handler.try", "RcStep:handler.set", "RcStep:handler.inst", "RcStep:handler.nohost"}
    exp.discard("Exec:none")
    return exp


def actions_in(states):
    out = set()
    for st in states:
        a = st["act"]
        n = a["name"]
        if n in ("Exec", "Fire"):
            out.add("%s:%s" % (n, a["t"]["k"]))
        elif n == "RcStep":
            out.add("RcStep:%s.%s" % (a["r"]["via"], a["kind"]))
        elif n == "Push":
            out.add("Push:%s" % a["kind"])
        else:
            out.add(n)
    return out


# ---------------------------------------------------------------------- deviation probes
def probes():
    from harness.replay.controlevents import A, T, R
    big = C(kinds=ALL_KINDS, targets=("ks", "ks.f(int)"), func=("ks.f(int)",), ev=9, ring=9, faults=9, beats=9)
    # an outage: the control connection is dead, both nodes refuse: _reconnect finds no host, the handler takes over
    outage = [A("ConnDie", c=1), A("NodeMode", kind="refuse", h=1), A("NodeMode", kind="refuse", h=2), A("Heartbeat", c=1),
              A("Exec", t=T("Reconnect")), A("RcStep", r=R("direct", (1, 2)), kind="try"),
              A("RcStep", r=R("direct", (2,)), kind="try"), A("RcStep", r=R("direct"), kind="nohost")]
    # node 2 accepts again; the handler's next attempt gets its connection and passes `if not self._cancelled`
    handler_connects = [A("NodeMode", kind="accept", h=2), A("Fire", t=T("CRecon")), A("Exec", t=T("CRecon")),
                        A("RcStep", r=R("handler", (1, 2)), kind="try"), A("RcStep", r=R("handler", (2,)), kind="try"),
                        A("RcStep", r=R("handler", (), 2), kind="set")]
    return {
        "D_handler_close": (big, outage + handler_connects + [A("RcStep", r=R("handler", (), 2, st="inst"), kind="inst")],
                            lambda ps, ring: ps[-1]["ctl"] == (2, "closed")),
        # node 1 dies; while the reconnection holds its new connection to node 2 (refreshed, registered, not installed)
        # node 3 joins: NEW_NODE arrives on the new connection, the refresh it schedules runs on the old one
        "D_lost_refresh": (big, [
            A("ConnDie", c=1), A("NodeMode", kind="refuse", h=1), A("Heartbeat", c=1), A("Exec", t=T("Reconnect")),
            A("RcStep", r=R("direct", (1, 2)), kind="try"), A("RcStep", r=R("direct", (2,)), kind="try"),
            A("RingAdd", kind="NEW", h=3), A("Fire", t=T("RefreshIf")), A("Exec", t=T("RefreshIf")),
            A("RcStep", r=R("direct", (), 2), kind="set"), A("Exec", t=T("OnDown", 1))],
            lambda ps, ring: (ps[-1]["ctl"] == (2, "open") and 3 not in ps[-1]["known"] and not ps[-1]["rcs"]
                              and not [t for t in ps[-1]["exec"] if t[0] == "Reconnect"]
                              and not [t for t in ps[-1]["sched"] if t[0] != "HRecon"])),
        "D_func_dedup": (big, [
            A("Push", kind="SCHEMA", x="ks.f(int)", c=1), A("Push", kind="SCHEMA", x="ks.f(int)", c=1)],
            lambda ps, ring: ps[-1]["sched"].get(T("Schema", 0, "ks.f(int)")) == 2),
        # ... meanwhile the heartbeat reports the dead connection again and that _reconnect finds no host (node 2 refuses
        # once more): it cancels and replaces the handler, which then goes on to install its connection and to clear the
        # reference - to its successor
        "D_stale_clear": (big, outage + handler_connects + [
            A("Heartbeat", c=1), A("NodeMode", kind="refuse", h=2), A("Exec", t=T("Reconnect")),
            A("RcStep", r=R("direct", (1, 2)), kind="try"), A("RcStep", r=R("direct", (2,)), kind="try"),
            A("RcStep", r=R("direct"), kind="nohost"),
            A("RcStep", r=R("handler", (), 2, canc=True, att=False, st="inst"), kind="inst")],
            lambda ps, ring: not ps[-1]["chand"] and ps[-1]["sched"].get(T("CRecon", a=False)) == 1),
    }


def run_probes():
    from harness.replay import controlevents as ce
    present, detail = [], {}
    for dev, (consts, acts, pred) in probes().items():
        ps, bad, err = ce.run_script(dict(consts, Fixed=set()), acts)
        if err is not None:
            detail[dev] = "schedule not executable on this code (%s)" % err
            continue
        try:
            hit = bool(pred(ps, None))
        except Exception as ex:
            detail[dev] = "probe predicate failed (%s: %s)" % (type(ex).__name__, ex)
            continue
        if hit:
            present.append(dev)
            detail[dev] = {"final": {k: ce.show(ps[-1][k]) for k in ("known", "up", "ctl", "chand", "exec", "sched", "rcs")}}
        else:
            detail[dev] = "not exhibited"
    return present, detail


# ---------------------------------------------------------------------- TLC runs as child processes
def _job_main(kind, module, cfg, workdir, kw, outpath, dot, traces):
    import pickle
    try:
        if kind == "trace":
            res, prog = tlc.validate_traces(module, cfg, traces, workdir, **kw)
            out = {"rc": res.rc, "out": res.out, "wall": res.wall, "progress": prog}
        else:
            res = tlc.run_tlc(module, cfg, workdir, dot=dot, **kw)
            out = {"rc": res.rc, "out": res.out, "wall": res.wall}
    except BaseException as ex:                  # MachineryError from validate_traces, anything else
        out = {"error": "%s: %s" % (type(ex).__name__, ex)}
    with open(outpath, "wb") as f:
        pickle.dump(out, f)


class Job:
    """One TLC run driven by a forked child process: the parent stays single-threaded, so it can fork replay workers
    while JVMs are still running.  kind: check (exhaustive), graph (+ state graph), trace (batched trace validation)."""

    def __init__(self, kind, module, cfg, workdir, traces=None, **kw):
        import multiprocessing
        self.kind = kind
        self.out = os.path.join(workdir, "result.pickle")
        self.dot = os.path.join(workdir, "graph.dot") if kind == "graph" else None
        self.proc = multiprocessing.get_context("fork").Process(
            target=_job_main, args=(kind, module, cfg, workdir, kw, self.out, self.dot, traces))
        self.proc.start()

    def result(self):
        import pickle
        from harness import tlaval
        self.proc.join()
        try:
            with open(self.out, "rb") as f:
                r = pickle.load(f)
        except OSError:
            raise tlc.MachineryError("TLC job left no result (exit code %s)" % self.proc.exitcode)
        if "error" in r:
            raise tlc.MachineryError(r["error"])
        res = tlc.TLCResult(r["rc"], r["out"], r["wall"])
        if self.kind == "trace":
            if r["progress"] is None and not res.violation:
                raise tlc.MachineryError("trace validation produced no progress record: %s\n%s" % (res.error, res.out[-3000:]))
            return res, r["progress"]
        if not res.ok and not res.violation:
            raise tlc.MachineryError("TLC failed: %s\n%s" % (res.error, res.out[-3000:]))
        if self.kind == "graph":
            if res.violation:
                return res, {}, [], []
            nodes, edges, init = tlaval.parse_dot(self.dot)
            os.unlink(self.dot)
            return res, nodes, edges, init
        return res


# ---------------------------------------------------------------------- replay workers (forked)
_G = {}


def _replay_walk(i):
    from harness.replay import controlevents as ce
    w = _G["walks"][i]
    states = [_G["nodes"][n] for n in w]
    try:
        div, bad = ce.replay(ce.consts_of(states[0]["sc"], _G["fixed"]), states, seed=i)
    except Exception as ex:                  # harness construction failed (e.g. the driver cannot even connect)
        div, bad = {"step": 0, "action": "Init", "diff": {"_exception": {"spec": "no exception",
                                                                        "code": "%s: %s" % (type(ex).__name__, ex)}}}, {}
    return i, div, bad


def replay_graph(nodes, walks, fixed, workers):
    """Replay every walk; yields (index, divergence or None, after-return findings)."""
    import gc
    import multiprocessing
    _G.update(nodes=nodes, walks=walks, fixed=set(fixed))
    gc.collect()
    gc.freeze()              # the parsed graph is immortal from here on: no collector pass walks it (nor, in the forked
    try:                     # workers, touches its pages)
        if workers <= 1 or len(walks) < 64:
            for i in range(len(walks)):
                yield _replay_walk(i)
            return
        pool = multiprocessing.get_context("fork").Pool(processes=workers)
        try:
            for r in pool.imap_unordered(_replay_walk, range(len(walks)), chunksize=32):
                yield r
        finally:
            pool.terminate()
            pool.join()
    finally:
        gc.unfreeze()


def replay_workers():
    """Worker processes for the replay: the cores nobody else is using (forked workers on a saturated machine are slower
    than one process)."""
    if os.environ.get("VERIF_REPLAY_WORKERS"):
        return max(1, int(os.environ["VERIF_REPLAY_WORKERS"]))
    try:
        free = (os.cpu_count() or 1) - os.getloadavg()[0]
    except OSError:
        free = 1
    return max(1, min(4, int(free)))      # more forked workers fight over the pages they share with the parent


def sig_of(div):
    act = div["action"]
    if not isinstance(act, dict):
        return "replay:%s:%s" % (act, ",".join(sorted(div["diff"])))
    what = act["t"]["k"] if act["t"]["k"] != "none" else (act.get("kind") or "")
    if act["name"] == "RcStep":
        what = "%s.%s" % (act["r"]["via"], act.get("kind"))
    return "replay:%s%s:%s" % (act["name"], ("(" + what + ")") if what else "", ",".join(sorted(div["diff"])))


_SEEN = {}


def _viol(ctx, what, replay=None, signature=None):
    """At most three replay files per failure class (a broken driver diverges on thousands of walks)."""
    n = _SEEN.get((ctx.pid, signature), 0)
    _SEEN[ctx.pid, signature] = n + 1
    if n < 3:
        ctx.violation(what, replay=replay, signature=signature)
    else:
        ctx.count("violations_not_filed_same_signature")


def _jc(c):
    return {k: (sorted(v) if isinstance(v, (set, frozenset)) else v) for k, v in c.items()}


def _cs(c):
    return "hosts=%s ring0=%s kinds=%s ev=%d ring=%d faults=%d beats=%d%s" % (
        sorted(c["Hosts"]), sorted(c["Ring0"]), "+".join(sorted(c["Kinds"])) or "-", c["MaxEvents"], c["MaxRing"],
        c["MaxFaults"], c["MaxBeats"], "" if c["TopoOn"] and c["SchemaOn"] else " windows<0")


def _covering_walks(edges, init):
    from harness.replay._walks import covering_walks
    return covering_walks(edges, init)


# ---------------------------------------------------------------------- the check
def run(ctx):
    from harness.replay import controlevents as ce
    from harness.replay.control import witnesses_in
    quick = ctx.quick
    timing = {}

    # ---- 1. which deviations does this code exhibit?
    t0 = time.time()
    present, detail = run_probes()
    timing["probes_s"] = round(time.time() - t0, 2)
    ctx.note("deviation_probes", {d: ("PRESENT" if d in present else detail[d]) for d in ALL_DEV})
    for dev in present:
        consts, acts, _ = probes()[dev]
        _viol(ctx, "%s: %s" % (dev, DEV_WHAT[dev]),
              replay={"deviation": dev, "constants": _jc(dict(consts, Fixed=[])), "actions": acts, "observed": detail[dev]},
              signature="deviation:%s" % dev)
        ctx.nontrivial(("deviation", dev))
    fixed_built = set(ALL_DEV) - set(present)
    broken = set(i for d in present for i in DEV_BREAKS[d])
    built_inv = [i for i in INVARIANTS if i not in broken]

    # ---- 2. TLC jobs, each driven by a child process: one JVM explores all replayed configurations (the specification's
    # Scenarios), others the intended model, one validates the recorded runs
    cfgs = graph_configs(quick)
    name_of = {ce.scenario_tla(c): name for name, c in cfgs}
    jobs = {}

    def workdir(name):
        d = os.path.join(ctx.scratch, name.replace(" ", "_"))
        os.makedirs(d, exist_ok=True)
        return d

    batches = [("built", cfgs[:7])] + ([("built-large", cfgs[7:])] if cfgs[7:] else [])
    for label, part in batches:
        d = workdir(label)
        mod, consts = ce.tla_constants([c for _, c in part], fixed_built, d)
        p = tlc.write_cfg(os.path.join(d, "built.cfg"), constants=consts, invariants=built_inv, properties=PROPERTIES,
                          constraints=["RecordWitnesses"], postcondition="PrintWitnesses", deadlock=False)
        jobs[label] = Job("graph", mod, p, d, timeout=1500, workers=1)
    groups = []
    if present:            # without deviations the as-built model is the intended one
        groups.append([(n, c) for n, c in cfgs if not quick or broken & set(_relevant_inv(n))])
    only = list(intended_only(quick))
    groups += [only[:3], only[3:]] if len(only) > 3 else [only]
    for k, part in enumerate(g for g in groups if g):
        label = "intended: " + ", ".join(n for n, _ in part)
        d = workdir("intended_%d" % k)
        mod, consts = ce.tla_constants([c for _, c in part], ALL_DEV, d)
        p = tlc.write_cfg(os.path.join(d, "intended.cfg"), constants=consts, invariants=INVARIANTS, properties=PROPERTIES,
                          deadlock=False)
        jobs["intended", label] = Job("check", mod, p, d, timeout=2400, workers=4 if quick else 5)

    # ---- 4a. meanwhile: record random runs of the real objects
    tconsts = dict(C(kinds=ALL_KINDS, targets=("ks", "ks.t", "ks.f(int)"), func=("ks.f(int)",), ev=4, ring=2, faults=3, beats=2),
                   Fixed=fixed_built)
    n_tr = 150 if quick else 2000
    t0 = time.time()
    traces, after_bad = [], []
    for i in range(n_tr):
        ev, bad, final = ce.record(tconsts, ctx.rng, max_events=45, seed=ctx.seed * 100003 + i)
        traces.append(ev)
        after_bad.append(bad)
    good = len(traces)
    timing["recording_s"] = round(time.time() - t0, 2)
    victim = next((i for i, t in enumerate(traces) if len(t) >= 8 and all(e["e"] != "Anomaly" for e in t[:8])
                   and t[2]["post"] != t[1]["post"] and t[2]["e"] in ("Exec", "Fire", "RcStep")), None)
    selftest = []
    if victim is not None:
        bad1 = copy.deepcopy(traces[victim][:8])
        bad1[3]["post"]["nopen"] += 1
        bad2 = copy.deepcopy(traces[victim][:8])
        del bad2[2]
        bad3 = copy.deepcopy(traces[victim][:8])
        bad3[4]["post"]["up"] = ["F" if x == "T" else "T" for x in bad3[4]["post"]["up"]]
        bad4 = copy.deepcopy(traces[victim][:8])
        bad4[5]["post"]["sched"] = bad4[5]["post"]["sched"] + [{"k": "Refresh", "h": 0, "x": "", "c": False, "a": False, "n": 1}] \
            if not any(x["k"] == "Refresh" for x in bad4[5]["post"]["sched"]) else [x for x in bad4[5]["post"]["sched"] if x["k"] != "Refresh"]
        selftest = [traces[victim][:8], bad1, bad2, bad3, bad4]

    d = workdir("trace")
    mod, consts = ce.tla_constants([tconsts], fixed_built, d, base="Trace_ControlEvents")
    tcfg = tlc.write_cfg(os.path.join(d, "trace.cfg"), init="TraceInit", next="TraceNext", constants=consts,
                         invariants=built_inv, constraints=["Progress"], postcondition="Done", deadlock=False)
    jobs["trace"] = Job("trace", mod, tcfg, d, traces=traces + selftest, timeout=2400)

    def spec_violation(res, label):
        tr = res.trace()
        _viol(ctx, "TLC: %s violated on ControlEvents.tla (%s)" % (res.invariant, label),
              replay={"trace": [dict(s.get("act", {})) for _, s in tr]}, signature="spec:%s" % res.invariant)

    # ---- 3. spec -> code: every edge of every as-built graph, each batch as soon as its JVM is done
    reached = set()
    actions_seen = set()
    replayed = steps = diverged = 0
    used_workers = []
    timing["waiting_for_graphs_s"] = timing["replay_s"] = 0.0
    for label, part in batches:
        t0 = time.time()
        res, nodes, edges, init = jobs[label].result()
        timing["waiting_for_graphs_s"] = round(timing["waiting_for_graphs_s"] + time.time() - t0, 2)
        ctx.add_tlc(res, "as-built (%s): %s" % (label, "; ".join("%s %s" % (n, _cs(c)) for n, c in part)))
        if res.violation:
            spec_violation(res, "as built, %s" % label)
            continue
        t0 = time.time()
        scen_of = {}
        for nid, st in nodes.items():
            scen_of[nid] = name_of.get(ce.scenario_tla(ce.consts_of(st["sc"])))
        by_name = {}
        for nid, st in nodes.items():
            by_name.setdefault(scen_of[nid], []).append(st)
        for n, c in part:
            taken = actions_in(by_name.get(n, ()))
            never = sorted(expected_actions(c) - taken)
            if never:
                raise tlc.MachineryError("actions never taken in the exhaustive model %s: %s" % (n, never))
            actions_seen |= taken
        if label == "built":
            reached |= witnesses_in(res, [], "ControlEvents")
            missing = sorted(set(WITNESSES) - reached)
            if missing:
                raise tlc.MachineryError("vacuity witnesses not reached in any configuration: %s" % missing)
        # thorough: the largest graphs are replayed as far as the time budget allows
        deadline = 10 ** 12 if quick else max(ctx.t0 + 500.0, time.time() + 240.0)
        workers = replay_workers()
        used_workers.append(workers)
        walks = _covering_walks(edges, init)
        order = {n: k for k, n in enumerate(sorted(by_name, key=lambda n: len(by_name[n])))}
        walks.sort(key=lambda w: order.get(scen_of[w[0]], 99))          # stable: smallest configurations first
        per = {n: {"states": len(by_name.get(n, ())), "edges": 0, "edges_replayed": 0, "walks": 0} for n, _ in part}
        del by_name
        edge_scen = {}
        for s_, d_, _ in edges:
            edge_scen[s_, d_] = scen_of[s_]
        for e, n in edge_scen.items():
            per[n]["edges"] += 1
        covered = set()
        cut = False
        results = replay_graph(nodes, walks, fixed_built, workers)
        for i, div, bad in results:
            if time.time() > deadline:
                cut = True
                results.close()
                break
            w = walks[i]
            name = scen_of[w[0]]
            per[name]["walks"] += 1
            upto = len(w) - 1 if div is None else max(div["step"] - 1, 0)
            covered.update(zip(w[:upto], w[1:upto + 1]))
            steps += upto
            replayed += 1
            if i % 500 == 0 or div is not None or bad:
                acts = [ce.act_of(nodes[n]) for n in w[1:]]
                consts = ce.consts_of(nodes[w[0]]["sc"], fixed_built)
                if i % 500 == 0:
                    ctx.sample({"direction": "spec->code", "config": name, "actions": [ce.short(a) for a in acts[:14]]})
                if div is not None:
                    diverged += 1
                    _viol(ctx, "replay diverges at step %d of a %s walk (%s): %s" % (div["step"], name, ce.short(div["action"]) if isinstance(div["action"], dict) else div["action"], div["diff"]),
                          replay={"constants": _jc(consts), "actions": acts[:max(div["step"] - 1, 0)], "divergence": div},
                          signature=sig_of(div))
                elif bad:
                    _viol(ctx, "after shutdown() returned (%s): %s" % (name, bad),
                          replay={"constants": _jc(consts), "actions": acts, "after_return": bad},
                          signature="after-shutdown:%s" % ",".join(sorted(bad)))
            last = nodes[w[-1]]
            if last["act"]["name"] in ("RcStep", "ShutB", "ShutC", "Heartbeat") or last["phase"] > 0:
                ctx.nontrivial((name, w[-1]))
        for e in covered:
            if e in edge_scen:
                per[edge_scen[e]]["edges_replayed"] += 1
        for n, v in per.items():
            v["exhaustive"] = v["edges_replayed"] == v["edges"]
            ctx.note("graph_%s" % n, v)
        if cut:
            ctx.note("replay_stopped_by_time_budget", True)
        if not set(edge_scen) <= covered and not diverged and not cut:
            raise tlc.MachineryError("replay of %s left %d edges uncovered without reporting a divergence"
                                     % (label, len(set(edge_scen) - covered)))
        del nodes, edges, walks, scen_of, edge_scen
        timing["replay_s"] = round(timing["replay_s"] + time.time() - t0, 2)
    ctx.traces_validated += replayed
    ctx.note("replay_worker_processes", used_workers)
    ctx.note("behaviours_replayed", replayed)
    ctx.note("steps_replayed", steps)
    ctx.note("vacuity_witnesses_reached", sorted(reached & set(WITNESSES)))
    ctx.note("coverage_actions_taken", sorted(actions_seen))
    ctx.note("model", {"fixed_in_as_built_model": sorted(fixed_built), "invariants_checked_as_built": built_inv,
                       "invariants_checked_intended": INVARIANTS, "action_properties": PROPERTIES})

    # ---- 2b. the intended model; the recorded runs
    t0 = time.time()
    for key, job in list(jobs.items()):
        if key[0] == "intended":
            res = job.result()
            ctx.add_tlc(res, key[1])
            if res.violation:
                spec_violation(res, key[1])
    tres, prog = jobs["trace"].result()
    timing["waiting_for_other_tlc_s"] = round(time.time() - t0, 2)

    # ---- 4b. code -> spec
    ctx.add_tlc(tres, "trace validation %s" % _cs(tconsts))
    ctx.note("timing", timing)
    if tres.violation:
        _viol(ctx, "invariant %s violated in a state of a recorded execution" % tres.invariant,
              replay={"trace": [dict(s.get("act", {})) for _, s in tres.trace()][-12:]}, signature="trace-inv:%s" % tres.invariant)
        return
    accepted = 0
    for i in range(good):
        t = traces[i]
        if prog[i] == len(t) + 1:
            accepted += 1
            if any(e["e"] in ("RcStep", "ShutB", "Heartbeat", "RingAdd", "RingRemove") for e in t):
                ctx.nontrivial(("trace", i, len(t)))
            if after_bad[i]:
                _viol(ctx, "after shutdown() returned (recorded run): %s" % after_bad[i],
                      replay={"constants": _jc(tconsts), "events": t, "after_return": after_bad[i]},
                      signature="after-shutdown:%s" % ",".join(sorted(after_bad[i])))
            continue
        ev = t[prog[i] - 1]
        what = ev.get("during", ev)
        _viol(ctx, "recorded execution rejected by the specification at event %d: %s" % (prog[i], {k: v for k, v in ev.items() if k != "post"}),
              replay={"constants": _jc(tconsts), "events": t[:prog[i]]},
              signature="trace:%s%s" % (what.get("e", what.get("name")), ("(" + ev["t"]["k"] + ")") if "t" in ev else
                                        ("(" + str(ev.get("kind")) + ")") if ev.get("kind") else ""))
    if selftest:
        sp = prog[good:]
        ok_victim = sp[0] == len(selftest[0]) + 1
        if ok_victim:
            if sp[1] != 4 or sp[2] > len(selftest[2]) or sp[3] != 5 or sp[4] != 6:
                raise tlc.MachineryError("binding self-test failed: corrupted / dropped trace accepted (progress %s)" % (sp,))
            ctx.note("binding_selftest", {"corrupted_nopen_rejected": 1, "dropped_event_rejected": 1, "flipped_up_rejected": 1,
                                          "corrupted_sched_rejected": 1})
        elif not ctx.violations:
            raise tlc.MachineryError("binding self-test: the probe prefix is rejected although nothing else diverges")
    else:
        raise tlc.MachineryError("binding self-test: no recorded run long enough")
    # replay direction: a flipped expectation must be noticed
    h = ce.EventsHarness(dict(C(kinds={"NEW"}, ev=1), Fixed=fixed_built))
    try:
        p = h.do(ce.A("Push", kind="NEW", h=3, c=1))
    finally:
        h.close()
    good_view = dict(p)
    n = 0
    for k, v in (("sched", dict(list(p["sched"].items()) + [(ce.T("Bogus"), 1)])), ("known", tuple(p["known"]) + (9,)),
                 ("ctl", (p["ctl"][0] + 1, p["ctl"][1])), ("phase", p["phase"] + 1), ("watch", not p["watch"])):
        n += bool(ce.diff(dict(good_view, **{k: v}), p))
    if n != 5 or ce.diff(good_view, p):
        raise tlc.MachineryError("binding self-test (replay direction) failed: %d of 5 flipped expectations noticed" % n)
    ctx.extra.setdefault("binding_selftest", {})["flipped_expectations_noticed"] = n
    ctx.sample({"direction": "code->spec", "events": [{k: v for k, v in e.items() if k != "post"} for e in traces[0][:12]]})
    ctx.traces_validated += accepted
    ctx.note("traces_recorded", good)
    ctx.note("traces_accepted", accepted)
    ctx.evaluations = replayed + good
    ctx.assumptions += [
        "no session is open (the one Cluster.connect() returns is shut down and dropped): on_up / on_add mark a host up at "
        "once, on_down is never discounted; pools, prepared statements and requests are the business of other checks",
        "every executor task is atomic, except that a control reconnection stops before each connection attempt of its "
        "query-plan loop, where _reconnect_internal has returned, and - a handler's run() - between its `if not "
        "self._cancelled` and _set_new_connection; _try_connect itself (connect, register, read, refresh) is one step; "
        "Cluster.shutdown in three stretches",
        "all live nodes report the same membership; a host that left the ring never comes back; REMOVED_NODE is never "
        "pushed for a member; a node leaves only while the driver has no open connection to it",
        "time is not modelled: the scheduler may hand over any waiting entry; the binding checks every delay against its "
        "window (+ 10 ms per earlier event of the type) and the reconnection policy's delay",
        "SimConnection/FakeNode reproduce the reactors' contract; SimExecutor/SimScheduler the pool's and scheduler's; the "
        "heartbeat is the harness calling ControlConnection.return_connection for a dead connection",
        "small scope: <= 3 hosts, <= 3 pushed events, <= 2 membership changes, <= 2 faults exhaustively (4/2/3 in recorded runs)",
    ]


def _relevant_inv(name):
    return {"events": ["OnePending"], "schema": ["OnePending"], "handler": ["InstalledOpen", "OneHandler"], "reconnect": [], "ring": [], "status": [],
            "windows-off": []}.get(name, INVARIANTS)


def replay(ctx, obj):
    """Re-execute a replay file (no TLC): print every step with the projected state of the real objects."""
    from harness.replay import controlevents as ce
    consts = dict(obj["constants"])
    for k in ("Hosts", "Ring0", "Targets", "FuncTargets", "Kinds", "Fixed"):
        if k in consts:
            consts[k] = set(consts[k])
    acts = obj.get("actions")
    if acts is None:
        acts = [_ev_act(e) for e in obj.get("events", []) if e.get("e") != "Anomaly"]
    if obj.get("divergence") and isinstance(obj["divergence"].get("action"), dict):
        acts = acts + [obj["divergence"]["action"]]
    h = ce.EventsHarness(consts)
    try:
        ps = [h.project()]
        print("   ", _state_line(ps[0]))
        for a in acts:
            a = _fix_act(a)
            print("->", ce.short(a))
            try:
                p = h.do(a)
            except Exception as ex:
                print("    cannot be performed: %s: %s" % (type(ex).__name__, ex))
                break
            ps.append(p)
            print("   ", _state_line(p))
        print("membership every node reports:", sorted(h.ring))
        dev = obj.get("deviation")
        if dev in ALL_DEV and len(ps) == len(acts) + 1 and probes()[dev][2](ps, None):
            ctx.violation("replayed: %s: %s" % (dev, DEV_WHAT[dev]), replay=obj, signature="deviation:%s" % dev)
        if h.returned():
            print("after shutdown() returned:", h.after_return_probe() or "nothing left open, nothing ran, metadata unchanged")
    finally:
        h.close()


def _fix_act(a):
    from harness.replay import controlevents as ce
    a = dict(a)
    a.setdefault("t", ce.task_dict(ce.NO_T))
    a.setdefault("r", ce.thread_dict(ce.NO_R))
    for k, dflt in (("kind", ""), ("h", 0), ("x", ""), ("c", 0)):
        a.setdefault(k, dflt)
    return a


def _ev_act(e):
    from harness.replay import controlevents as ce
    a = {"name": e["e"], "t": e.get("t") or ce.task_dict(ce.NO_T), "r": e.get("r") or ce.thread_dict(ce.NO_R)}
    for k, dflt in (("kind", ""), ("h", 0), ("x", ""), ("c", 0)):
        a[k] = e.get(k, dflt)
    return a


def _state_line(p):
    from harness.replay.controlevents import show
    return {k: show(p[k]) for k in ("known", "up", "lbp", "hrec", "ctl", "chand", "exec", "sched", "rcs", "em", "phase", "nopen")}
