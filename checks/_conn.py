"""Shared driver for C09 / C10 (spec/Connection.tla bound to the real connection, pool and request future)."""
import copy
import os

from harness import tlc

C09_INV = ["TypeOK", "UniqueIds", "NoCrossTalk", "IdBound", "NoIdExhaustion", "Accounting", "Recycled"]
C10_INV = ["FailedOnce", "AllFailed"]
C10_PROPS = ["NothingAfterDeath", "SendRefusedWhenDead"]
WITNESSES = {"C09": ["Witness_LateResponse", "Witness_Grow", "Witness_SessionOpen", "Witness_Busy", "Witness_StaleTimeout"],
             "C10": ["Witness_ErroredTwoAtOnce", "Witness_Refused", "Witness_SessionFailed", "Witness_FailWhileEncoding",
                     "Witness_BadAnswerWithOthersPending", "Witness_TwoDefunctsRace"]}

C10_VARS = {"errs", "cperr", "defunct", "closed"}
DEATH_ACTIONS = {"SocketError", "Close", "RespondCorrupt", "RespondProtoError", "HbDefunctBegin", "SocketErrorDuringDefunct",
                 "HbDefunctFinish"}


def owner_of(divergence, dead_before):
    """Which property does a replay divergence speak about?"""
    act = divergence["action"]
    name = act["name"] if isinstance(act, dict) else act
    d = divergence["diff"]
    if name in DEATH_ACTIONS or dead_before:
        return "C10"
    if set(d) & C10_VARS:
        return "C10"
    if name in ("Send", "Push") and set(d) <= {"reqs", "ph", "st"}:
        return "C10"          # when the handler is registered relative to encoding / failure is C10's concern
    st = d.get("st")
    if st and any(v in ("errored", "refused") for v in list(st["spec"].values()) + list(st["code"].values())):
        return "C10"
    return "C09"


def close_fails_sessions(rc):
    """Direct probe on the real objects: does an explicit close() fail an open continuous-paging session?"""
    h = rc.ConnHarness(2, 1, {1}, {1})
    try:
        h.act_Borrow(1, -1)
        h.act_Send(1, -1)
        h.act_Push(1, -1)
        h._page(h._rid[1], False)
        h.conn.close()
        return h.project()["cperr"][1] >= 1
    finally:
        h.shutdown()


def run(ctx, pid):
    from harness.replay import connection as rc
    consts = {"HbDefunct": True, "BadAnswers": True, "AnyId": False, "MaxId": 2, "InitFree": 1, "Reqs": {1, 2, 3}, "CPReqs": set() if ctx.quick else {3}, "MaxPages": 2,
              "CloseFailsSessions": True, "Busy": not ctx.quick}
    inv = C09_INV + C10_INV
    # the intended design (close() fails paging sessions too) must satisfy the properties
    icfg = tlc.write_cfg(os.path.join(ctx.scratch, "conn_intended.cfg"), constants=dict(consts, CPReqs={3}), invariants=inv,
                         properties=C10_PROPS, deadlock=False)
    ires = tlc.check_model("Connection", icfg, ctx.scratch, timeout=900)
    ctx.add_tlc(ires, "exhaustive, intended design (CloseFailsSessions)")
    if ires.violation:
        own = "C09" if ires.invariant in C09_INV else "C10"
        if own == pid:
            ctx.violation("TLC: %s violated on Connection.tla" % ires.invariant,
                          replay={"trace": [dict(s.get("act", {})) for _, s in ires.trace()]}, signature="spec:%s" % ires.invariant)
        return
    try:
        intended = close_fails_sessions(rc)
    except Exception as ex:
        intended = False
        if pid == "C10":
            ctx.violation("probe of close() with an open paging session failed: %s: %s" % (type(ex).__name__, ex),
                          replay={"probe": "close-with-open-session"}, signature="Close:probe-exception")
    if not intended and pid == "C10":
        ctx.violation("an explicit close() of a healthy connection does not fail an open continuous-paging session "
                      "(its consumer waits forever); only defunct() calls error_all_cp_sessions",
                      replay={"probe": "close-with-open-session"}, signature="Close:open-cp-session-not-failed")
    ctx.note("code_follows_CloseFailsSessions", intended)
    consts["CloseFailsSessions"] = intended          # the model the code is bound to (deviation named in the spec)
    mine_inv = C09_INV if pid == "C09" else C10_INV
    cfg = tlc.write_cfg(os.path.join(ctx.scratch, "conn.cfg"), constants=consts, invariants=inv,
                        properties=C10_PROPS, deadlock=False)
    res, nodes, edges, init = tlc.state_graph("Connection", cfg, ctx.scratch, coverage=True, timeout=900)
    ctx.add_tlc(res, "exhaustive MaxId=2 InitFree=1 Reqs=3")
    ctx.note("constants", consts)
    if res.violation:
        own = "C09" if res.invariant in C09_INV else "C10"
        if own == pid:
            ctx.violation("TLC: %s violated on Connection.tla" % res.invariant,
                          replay={"trace": [dict(s.get("act", {})) for _, s in res.trace()]},
                          signature="spec:%s" % res.invariant)
        return
    cov = res.coverage()
    expected_actions = ["Borrow", "Send", "Push", "Respond", "Timeout", "TimeoutStale", "FailAll"] + (["RespondPage"] if consts["CPReqs"] else [])
    zero = [a for a in expected_actions if a in cov and cov[a][1] == 0]
    if zero:
        raise tlc.MachineryError("actions never taken in the exhaustive model: %s" % zero)
    ctx.note("coverage_zero_actions", zero)

    if not ctx.quick:
        big = {"HbDefunct": True, "BadAnswers": True, "AnyId": False, "MaxId": 3, "InitFree": 2, "Reqs": {1, 2, 3, 4}, "CPReqs": {3, 4}, "MaxPages": 2, "CloseFailsSessions": intended, "Busy": True}
        bcfg = tlc.write_cfg(os.path.join(ctx.scratch, "conn_big.cfg"), constants=big, invariants=inv,
                             properties=C10_PROPS, deadlock=False)
        bres = tlc.check_model("Connection", bcfg, ctx.scratch, timeout=3000)
        ctx.add_tlc(bres, "exhaustive MaxId=3 InitFree=2 Reqs=4")
        if bres.violation:
            own = "C09" if bres.invariant in C09_INV else "C10"
            if own == pid:
                ctx.violation("TLC: %s violated on Connection.tla (thorough constants)" % bres.invariant,
                              replay={"trace": [dict(s.get("act", {})) for _, s in bres.trace()]},
                              signature="spec:%s" % bres.invariant)
            return

    graphs = [(consts, nodes, edges, init)]
    if ctx.quick:
        # the unwritable-socket dimension on a smaller model (2 requests), every edge replayed as well
        for label, sconsts in (("2 requests, unwritable socket enabled", dict(consts, Reqs={1, 2}, CPReqs=set(), Busy=True)),
                               ("2 requests, one with continuous paging", dict(consts, Reqs={1, 2}, CPReqs={2}, Busy=False))):
            scfg = tlc.write_cfg(os.path.join(ctx.scratch, "conn_small.cfg"), constants=sconsts, invariants=inv,
                                 properties=C10_PROPS, deadlock=False)
            sres, snodes, sedges, sinit = tlc.state_graph("Connection", scfg, ctx.scratch, timeout=900)
            ctx.add_tlc(sres, "exhaustive, " + label)
            if sres.violation:
                own = "C09" if sres.invariant in C09_INV else "C10"
                if own == pid:
                    ctx.violation("TLC: %s violated on Connection.tla (%s)" % (sres.invariant, label),
                                  replay={"trace": [dict(s.get("act", {})) for _, s in sres.trace()]}, signature="spec:%s" % sres.invariant)
                return
            graphs.append((sconsts, snodes, sedges, sinit))
    # vacuity: the interesting situations must occur in the explored graphs (evaluated on TLC's states)
    def fnv(v):
        return list(v.values()) if isinstance(v, dict) else list(v)
    WIT = {
        "Witness_LateResponse": lambda c, n: n["act"]["name"] == "RespondLate",
        "Witness_Grow": lambda c, n: len(n["avail"]) == 1 and not (n["defunct"] or n["closed"]),
        "Witness_SessionOpen": lambda c, n: len(fnv(n["cps"])) > 0,
        "Witness_Busy": lambda c, n: not (n["defunct"] or n["closed"]) and "refused" in fnv(n["st"]),
        "Witness_StaleTimeout": lambda c, n: n["act"]["name"] == "TimeoutStale",
        "Witness_ErroredTwoAtOnce": lambda c, n: fnv(n["st"]).count("errored") >= 2,
        "Witness_Refused": lambda c, n: "refused" in fnv(n["st"]),
        "Witness_SessionFailed": lambda c, n: any(x > 0 for x in fnv(n["cperr"])),
        "Witness_TwoDefunctsRace": lambda c, n: n["dfn"] == "begun2" and len(fnv(n["cps"])) > 0,
        "Witness_BadAnswerWithOthersPending": lambda c, n: "failed" in fnv(n["st"]) and "errored" in fnv(n["st"]),
        "Witness_FailWhileEncoding": lambda c, n: any(p == "encode" and t == "errored" for p, t in zip(fnv(n["ph"]), fnv(n["st"]))),
    }
    missing = [w for w in WITNESSES[pid]
               if not any(WIT[w](gc_, n) for gc_, gn, _, _ in graphs for n in gn.values())]
    if missing:
        raise tlc.MachineryError("vacuity witnesses not reachable in the explored graphs: %s" % missing)
    ctx.note("vacuity_witnesses_reached", len(WITNESSES[pid]))
    # ---- spec -> code: replay walks covering every edge of the exhaustive graph(s)
    replayed = 0
    total_edges = total_covered = 0
    for gconsts, gnodes, gedges, ginit in graphs:
        walks = tlc.graph_walks(gnodes, gedges, ginit, rng=ctx.rng, max_walks=100000, max_len=30,
                                random_walks=100 if ctx.quick else 10000)
        covered = set()
        for w in walks:
            covered.update(zip(w, w[1:]))
        total_edges += len(set((s, d) for s, d, _ in gedges))
        total_covered += len(covered)
        for w in walks:
            states = [gnodes[n] for n in w]
            # handlers of some requests raise when errored (the connection must isolate that); vary the set per walk
            raisers = [(), (1,), (2, 3), (1, 2, 3)][replayed % 4]
            d = rc.replay(gconsts, states, raisers)
            replayed += 1
            acts = [dict(s["act"]) for s in states[1:]]
            names = [a["name"] for a in acts]
            if any(n in ("Timeout", "RespondLate", "SocketError", "Close", "FirstPage", "Page", "SocketBusy") for n in names):
                ctx.nontrivial(tuple((a["name"], a["r"], a["id"]) for a in acts))
            if replayed % 500 == 1:
                ctx.sample({"direction": "spec->code", "actions": acts})
            if d:
                step = d["step"]
                dead_before = step > 0 and (states[step - 1]["defunct"] or states[step - 1]["closed"])
                if owner_of(d, dead_before) == pid:
                    ctx.violation("replay diverges at step %d (%s): %s" % (step, d["action"], d["diff"]),
                                  replay={"constants": gconsts, "actions": acts[:step], "divergence": d, "raisers": list(raisers)},
                                  signature="replay:%s:%s" % (d["action"]["name"] if isinstance(d["action"], dict) else d["action"],
                                                              ",".join(sorted(d["diff"]))))
    ctx.note("graph_edges", total_edges)
    ctx.note("graph_edges_replayed", total_covered)
    ctx.note("exhaustive", total_covered == total_edges)
    ctx.traces_validated += replayed
    ctx.note("behaviours_replayed", replayed)

    # ---- code -> spec: recorded random runs validated by TLC against Trace_Connection.tla
    tconsts = {"HbDefunct": False, "BadAnswers": True, "AnyId": True, "MaxId": 3, "InitFree": 1, "Reqs": {1, 2, 3, 4}, "CPReqs": {4}, "MaxPages": 3} if ctx.quick else \
        {"HbDefunct": False, "BadAnswers": True, "AnyId": True, "MaxId": 3, "InitFree": 2, "Reqs": {1, 2, 3, 4, 5}, "CPReqs": {2, 4}, "MaxPages": 3}
    tconsts["CloseFailsSessions"] = intended
    tconsts["Busy"] = True
    n_tr = 300 if ctx.quick else 4000
    traces = [rc.record(tconsts, ctx.rng, max_events=40) for _ in range(n_tr)]
    good = len(traces)
    # binding self-test: a corrupted field and a dropped event must be rejected
    victim = next(t for t in traces if len(t) >= 5)
    bad1 = copy.deepcopy(victim)
    bad1[3]["post"]["inflight"] += 1
    bad2 = copy.deepcopy(victim)
    del bad2[2]
    traces += [bad1, bad2]
    tcfg = tlc.write_cfg(os.path.join(ctx.scratch, "trace.cfg"), init="TraceInit", next="TraceNext", constants=tconsts,
                         invariants=inv, constraints=["Progress"], postcondition="Done", deadlock=False)
    tres, prog = tlc.validate_traces("Trace_Connection", tcfg, traces, ctx.scratch, timeout=1800)
    ctx.add_tlc(tres, "trace validation")
    if tres.violation:
        own = "C09" if tres.invariant in C09_INV else "C10"
        if own == pid:
            ctx.violation("invariant %s violated in a state of a recorded execution" % tres.invariant,
                          replay={"trace": [dict(s) for _, s in tres.trace()][-3:]}, signature="trace-inv:%s" % tres.invariant)
        return
    victim_ok = prog[traces.index(victim)] == len(victim) + 1
    if victim_ok and (prog[good] != 4 or prog[good + 1] > len(bad2)):     # judged only on a victim the spec accepts
        raise tlc.MachineryError("binding self-test failed: corrupted/dropped trace accepted (%s, %s)" % (prog[good], prog[good + 1]))
    ctx.note("binding_selftest", {"corrupted_rejected": 1, "dropped_rejected": 1})
    accepted = 0
    for i in range(good):
        t = traces[i]
        if prog[i] == len(t) + 1:
            accepted += 1
            if any(e["e"] in ("Timeout", "SocketError", "Close") for e in t):
                ctx.nontrivial(("trace", i, len(t)))
            continue
        ev = t[prog[i] - 1]
        dead_before = prog[i] >= 2 and (t[prog[i] - 2]["post"]["defunct"] or t[prog[i] - 2]["post"]["closed"])
        own = "C10" if (ev["e"] in DEATH_ACTIONS or ev.get("during", {}).get("e") in DEATH_ACTIONS or dead_before) else "C09"
        if own == pid:
            ctx.violation("recorded execution rejected by the specification at event %d: %s" % (prog[i], ev),
                          replay={"constants": tconsts, "events": t[:prog[i]]}, signature="trace:%s" % ev["e"])
    ctx.sample({"direction": "code->spec", "events": [{k: v for k, v in e.items() if k != "post"} for e in traces[0][:12]]})
    ctx.traces_validated += accepted
    ctx.note("traces_recorded", good)
    ctx.note("traces_accepted", accepted)
    ctx.evaluations = replayed + good
    ctx.assumptions += [
        "loop-thread callbacks (process_msg, _on_timeout, socket error) are atomic w.r.t. each other, as in every shipped reactor",
        "SimConnection reproduces the reactors' close()/push()/read contract; FakeNode's codec is right",
        "small scope: MaxId<=3, <=5 requests",
    ]


def replay(ctx, pid, obj):
    from harness.replay import connection as rc
    consts = obj["constants"]
    consts["Reqs"] = set(consts["Reqs"])
    if "actions" in obj:
        h = rc.ConnHarness(consts["MaxId"], consts["InitFree"], consts["Reqs"], consts.get("CPReqs", ()), obj.get("raisers", ()))
        for a in obj["actions"] + ([obj["divergence"]["action"]] if obj.get("divergence") else []):
            print("->", a)
            h.do(a)
            print("   ", h.project())
        h.shutdown()
    else:
        for e in obj["events"]:
            print(e)
