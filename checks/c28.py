"""C28 - type descriptors round-trip between Cassandra and CQL notation.

Spec : spec/TypeNames.tla - type trees over {int, text, list, set, map, tuple, udt, frozen, reversed, vector},
       reference printers CassName(t) (marshal-class descriptor) and CqlName(t), StripFrozen(t).
TLC  : enumerates every tree to depth 3 (depth 4 by simulation in the thorough tier) and checks the printers'
       algebra (brackets balance, StripFrozen leaves no frozen, is idempotent and removes exactly the wrappers).
Bind : for every enumerated tree, on the real cassandra.cqltypes:
       lookup_casstype(CassName(t)) prints CqlName(t), is the class tree t implies and serializes a witness value
       as the protocol says; cqltype_to_python(s) has the structure PyForm(t) and python_to_cqltype of it is s up to
       whitespace, for s = CqlName(t) (incl. strings with two and three quoted identifiers);
       strip_frozen(s) = CqlName(StripFrozen(t)).
       Value codec on every native protocol version 1-4: the parsed type encodes / decodes a witness value like the
       type without its frozen / reversed wrappers (ValueType / plain of the spec), flat collections also against the
       2-byte-count format of protocol v1 / v2 itself.
       Parse histories (HTrees / Histories of the spec): descriptors in which a user type's name equals a plain-name
       token (its own keyspace, the other types' keyspace, a marshal class), each alone and after each other one,
       in registries of a process that parsed nothing else: the result must be the one the descriptor alone denotes.
"""
import os
import re
import time

from harness import tlc
from harness.replay import typenames as tn
from harness.tlaval import to_py

META = {
    "property_id": "C28",
    "engine": "TypeNames",
    "technique": "TLA+ reference printers of type trees enumerated by TLC; every enumerated tree is parsed/printed by the "
                 "real cqltypes functions and compared with the specification's token sequences, class tree and a "
                 "serialized witness value",
    "level": "model_checking",
    "level_text": "TLC enumerates every type tree to depth 3 (frozen / reversed wrappers not counted in the depth; 3316 "
                  "trees quick, all ~28k thorough, plus random depth-4 trees by simulation in the thorough tier) and checks "
                  "the reference printers' algebra as invariants; each tree is then evaluated on the real code in both "
                  "directions (marshal descriptor -> class tree / CQL name / codec, CQL string -> python list -> CQL "
                  "string, strip_frozen) and must equal the specification's answer. Exhaustive over the bounded tree "
                  "language.",
    "level_note": "Trusted: TLC; the reference printers in TypeNames.tla (Cassandra's AbstractType.toString / "
                  "CQL3Type.toString in the dialect of Cassandra 2.1-3.5 schema tables: tuples and UDTs implicitly frozen "
                  "without a FrozenType wrapper; VectorType(type , n) of 5.0); the harness's independent encoder of the "
                  "protocol value formats used for the witness value. A reversed type's CQL name is its base type's and is "
                  "read through the driver's own cassandra.metadata._cql_from_cass_type (which unwraps ReversedType). "
                  "Parse histories are sequences of two descriptors over ten small trees; the process-global type "
                  "registries (_casstypes, _cqltypes, UserType._cache) are snapshotted and restored by the harness around "
                  "each history. Leaves are int and text only, one keyspace, seven UDT names (five of them need quoting: mixed case, space, "
                  "dash, embedded double quote, apostrophe), vector dimension 2; "
                  "Cassandra >= 3.6 "
                  "descriptors that wrap UserType in FrozenType are outside the dialect.",
    "design_ref": "5.6 C28",
}

INVARIANTS = ["Balanced", "NoFrozenLeft", "StripIdem", "StripExact", "DepthBound", "ReversedOutermostOnly", "HistoryIndependent", "WrappersTransparent"]
WITNESSES = ["Witness_FrozenInside", "Witness_ReversedVector", "Witness_NotCassOk", "Witness_StripChanges", "Witness_ThreeQuoted", "Witness_NameIsLaterKeyspace", "Witness_TopLevelFrozenCollection"]


class _Phases:
    def __init__(self, ctx):
        self.ctx, self.t, self.d = ctx, time.time(), {}

    def done(self, name):
        now = time.time()
        self.d[name] = round(self.d.get(name, 0) + now - self.t, 1)
        self.t = now
        self.ctx.note("phase_wall_s", dict(self.d))


def depth(t):
    if t["k"] in ("frozen", "reversed"):
        return depth(t["a"][0])
    return 1 + max([depth(a) for a in t["a"]] or [0])


def evaluate(st):
    """One TypeNames state on the real code -> (n_checked, [(direction, signature, message)])."""
    t = to_py(st["t"])
    fails, n = [], 0
    prev = st.get("prev") or ()
    if prev or tn.uses_history_names(t):
        # a case of the parse histories: its own registries, Cassandra notation only
        return 1, [("cass-after-history", sig, msg) for sig, msg in tn.eval_history(prev, t, st["cass"], st["cql"], st.get("plain"))]
    if st["cassok"]:
        for full in (True, False):
            n += 1
            fails += [("cass" if full else "cass-short", sig, msg) for sig, msg in tn.eval_cass(t, st["cass"], st["cql"], full, st.get("plain"))]
    if t["k"] != "reversed":
        n += 1
        fails += [("cql", sig, msg) for sig, msg in tn.eval_cql(st["cql"], st["stripped"], st.get("py"))]
    return n, fails


def run(ctx):
    ph = _Phases(ctx)
    consts = {"MaxDepth": 3, "Narrow": bool(ctx.quick)}
    ctx.note("constants", consts)
    cfg = tlc.write_cfg(os.path.join(ctx.scratch, "TypeNames.cfg"), constants=consts, invariants=INVARIANTS, deadlock=False)
    res, states = tlc.enumerate_states("TypeNames", cfg, ctx.scratch, timeout=600 if ctx.quick else 3000)
    ctx.add_tlc(res, "all trees to depth 3" + (" (two-argument constructors with one leaf at the outermost level)" if ctx.quick else ""))
    ctx.note("exhaustive", True)
    if res.violation:
        ctx.violation("TLC: invariant %s violated in TypeNames.tla" % res.invariant,
                      replay={"trace": [s for _, s in res.trace()]}, signature="spec:" + str(res.invariant))
        return
    ph.done("tlc_enumerate")
    wcfg = tlc.write_cfg(os.path.join(ctx.scratch, "TypeNamesW.cfg"), constants={"MaxDepth": 3, "Narrow": True},
                         invariants=WITNESSES, deadlock=False)
    wres = tlc.check_model("TypeNames", wcfg, ctx.scratch, timeout=600, extra=("-continue",))
    reached = set(re.findall(r'Invariant (\S+) is violated', wres.out))
    if reached != set(WITNESSES):
        raise tlc.MachineryError("vacuity witnesses not reached: %s" % sorted(set(WITNESSES) - reached))
    ctx.note("vacuity_witnesses_reached", len(WITNESSES))
    ph.done("tlc_witnesses")

    hexes = tn.check_tables()
    seen = set()
    failures = []                      # (direction, signature, message, state)

    def bind(st, origin):
        key = (tuple(st["cass"]), tuple(st["cql"]), bool(st["cassok"]), tuple(st.get("prev") or ()))
        if key in seen:
            return
        seen.add(key)
        t = to_py(st["t"])
        for node in tn.tree_kinds(t):
            if node["k"] == "udt" and hexes[node["nm"]] not in st["cass"]:
                raise tlc.MachineryError("hex table of TypeNames.tla disagrees with hexlify for %r" % node["nm"])
            if node["k"] == "udt" and st["cass"][st["cass"].index(hexes[node["nm"]]) - 2] != tn.UDT_KS.get(node["nm"], "ks"):
                raise tlc.MachineryError("keyspace table of the harness differs from UdtKs for %r" % node["nm"])
        if tn.KIND_CLASS[t["k"]] != st["cass"][0] and not (t["k"] == "frozen" and t["a"][0]["k"] in ("tuple", "udt")):
            raise tlc.MachineryError("class table of the harness differs from MarshalClass of the specification")
        n, fails = evaluate(st)
        ctx.evaluations += n
        bad_dirs = set(d for d, _, _ in fails)
        ctx.traces_validated += n - len(bad_dirs)
        for d, sig, msg in fails:
            failures.append((d, sig, msg, st))
        if depth(t) >= 3 or any(x["k"] in ("frozen", "udt", "vector", "reversed") for x in tn.tree_kinds(t)):
            ctx.nontrivial(tn.cql_string(st["cql"]) + "|" + tn.cass_string(st["cass"], False))
        if len(ctx.samples) < 5 and origin == "enum" and depth(t) == 3 and st["cassok"] and t["k"] == "map" \
                and t["a"][1]["k"] == "frozen" and not fails:
            ctx.sample({"cass": tn.cass_string(st["cass"]), "cql": tn.cql_string(st["cql"]),
                        "stripped": tn.cql_string(st["stripped"])})

    for st in states:
        bind(st, "enum")
    ph.done("bind_real_code")

    if not ctx.quick:
        scfg = tlc.write_cfg(os.path.join(ctx.scratch, "TypeNamesS.cfg"), init="InitGrow", next="Grow",
                             constants={"MaxDepth": 4, "Narrow": False}, invariants=INVARIANTS, deadlock=False)
        sres, behs = tlc.simulate("TypeNames", scfg, ctx.scratch, num=1500, depth=8, seed=ctx.seed, timeout=900)
        if sres.violation:
            ctx.violation("TLC (simulation, depth 4): invariant %s violated in TypeNames.tla" % sres.invariant,
                          replay={"trace": [s for _, s in sres.trace()]}, signature="spec:" + str(sres.invariant))
            return
        ctx.add_tlc(sres, "simulation of growing trees to depth 4")
        before = len(seen)
        d4 = 0
        for b in behs:
            for st in b:
                bind(st, "sim")
                d4 += depth(to_py(st["t"])) == 4
        if d4 == 0:
            raise tlc.MachineryError("simulation produced no depth-4 tree")
        ctx.note("simulation", {"behaviours": len(behs), "new_trees": len(seen) - before, "depth4_states": d4})
        ph.done("tlc_simulation_and_bind")

    # binding self-test: corrupted expectations must be noticed.  A probe on which the code under test already
    # fails is skipped (the run reports that violation anyway); the harness must not crash on a broken driver.
    from harness.tlaval import FrozenDict
    INT = {"k": "int", "a": [], "nm": "", "d": 0}
    TEXT = dict(INT, k="text")

    def state_of(tree):
        return next((s for s in states if to_py(s["t"]) == tree), None)

    def swap_map(s):
        c = list(s["cql"])
        c[2], c[4] = c[4], c[2]
        return dict(s, cql=tuple(c))
    probes = {
        "map_key_value_swapped": (state_of({"k": "map", "a": [INT, TEXT], "nm": "", "d": 0}), swap_map),
        "frozen_not_stripped": (state_of({"k": "frozen", "a": [{"k": "list", "a": [INT], "nm": "", "d": 0}], "nm": "", "d": 0}),
                                lambda s: dict(s, stripped=s["cql"])),
        "parse_structure_changed": (state_of({"k": "map", "a": [INT, TEXT], "nm": "", "d": 0}),
                                    lambda s: dict(s, py=("map", ("int", ("text",)))),),
        "value_codec_of_another_type": (state_of({"k": "frozen", "a": [{"k": "list", "a": [INT], "nm": "", "d": 0}], "nm": "", "d": 0}),
                                        lambda s: dict(s, plain=("ListType", "(", "UTF8Type", ")")),),
        "list_for_set": (state_of({"k": "list", "a": [INT], "nm": "", "d": 0}),
                         lambda s: dict(s, t=FrozenDict(k="set", a=s["t"]["a"], nm="", d=0))),
    }
    noticed = {}
    for name, (st, corrupt, *_) in probes.items():
        if st is None:
            raise tlc.MachineryError("binding self-test: probe tree for %s was not enumerated" % name)
        if evaluate(st)[1]:
            noticed[name] = "skipped (the code under test fails on the probe itself)"
        elif not evaluate(corrupt(st))[1]:
            raise tlc.MachineryError("binding self-test failed: corrupted expectation %s not noticed" % name)
        else:
            noticed[name] = "rejected"
    ctx.note("binding_selftest", dict(noticed, corrupted_rejected=sum(1 for v in noticed.values() if v == "rejected")))
    report(ctx, failures)
    ph.done("verdicts")
    ctx.note("trees", len(seen))
    ctx.assumptions += ["descriptor dialect of Cassandra 2.1-3.5 (tuples / UDTs implicitly frozen, no FrozenType wrapper "
                        "around them); reversed only outermost and named as its base type",
                        "leaves int and text; keyspace ks; UDT names u, kj, Kj, \"Big Type\", other-udt, a\"b, it's; vector dimension 2"]


def report(ctx, failures):
    by_sig = {}
    for d, sig, msg, st in failures:
        by_sig.setdefault(sig, []).append((d, msg, st))
    for sig in sorted(by_sig):
        cases = sorted(by_sig[sig], key=lambda c: (len(c[2]["cass"]) + len(c[2]["cql"]), c[0] == "cass-short", c[1]))
        d, msg, st = cases[0]
        ctx.violation("%s  [%d cases with this signature]" % (msg, len(cases)),
                      replay={"state": {k: to_py(st[k]) for k in ("t", "cass", "cassok", "cql", "stripped", "py", "plain", "prev")},
                              "more": [{k: to_py(c[2][k]) for k in ("t", "cass", "cassok", "cql", "stripped", "py", "plain", "prev")} for c in cases[1:10]]},
                      signature=sig)


def replay(ctx, r):
    cases = [r["state"]] + list(r.get("more", []))
    sigs = []
    for st in cases:
        st = dict(st, cass=tuple(st["cass"]), cql=tuple(st["cql"]), stripped=tuple(st["stripped"]))
        if "py" not in st:
            st["py"] = None
        st["prev"] = tuple(tuple(p) for p in st.get("prev") or ())
        if st.get("plain") is not None:
            st["plain"] = tuple(st["plain"])
        n, fails = evaluate(st)
        print("%s | %s" % (tn.cass_string(st["cass"]) if st["cassok"] else "-", tn.cql_string(st["cql"])))
        for d, sig, msg in fails:
            print("   [%s] %s" % (sig, msg))
            sigs.append(sig)
        if not fails:
            print("   conforms")
    if sigs:
        ctx.violation("replayed: %d failing evaluations" % len(sigs), replay=r, signature=sigs[0])
