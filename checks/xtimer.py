"""XTIMER - extension beyond the listed properties: the driver's timer and scheduling machinery
(spec/Timers.tla): cassandra.connection.Timer / TimerManager (request timeouts of every reactor) and
cassandra.cluster._Scheduler (reconnection, debounced refreshes).

Not registered in MANIFEST.json (the property list is fixed); run with `./check XTIMER [--tier thorough]`.
It documents one finding on the pinned tree: TimerManager.service_timeouts does not pop a timer whose callback
raised and serves it again (findings/XTIMER_raising_callback_served_again.py)."""
from checks import _timers

META = {
    "property_id": "XTIMER",
    "engine": "Timers",
    "technique": "TLA+ spec of TimerManager.service_timeouts / add_timer / Timer.cancel and of the _Scheduler thread, checked "
                 "exhaustively by TLC; every (state, action) pair replayed on the real objects (virtual clock, DetSched logical "
                 "threads); recorded random runs validated by TLC",
    "level": "model_checking",
    "level_text": _timers.LEVEL_TEXT,
    "level_note": "Extension, not a listed property. Trusted: TLC; the harness doubles (virtual clock, queue whose blocking get "
                  "parks the logical thread, executor stand-in, is_shutdown property) and the projection; atomicity of the "
                  "built-in list / heap / set / queue operations; one service_timeouts caller; schedule/schedule_unique calls "
                  "do not overlap each other; small scope (3 timers / 2 tasks exhaustively, 5 / 3 in recorded runs).",
    "design_ref": "17 (extensions)",
    "extension": True,
}


def run(ctx):
    _timers.run(ctx)


def replay(ctx, obj):
    _timers.replay(ctx, obj)
