"""Shared code of C36: TLC configuration of spec/ColumnValues.tla, enumeration with vacuity witnesses (same scheme as
checks/_calendar.py: one run, `-continue`, every witness is the negation of ONE state)."""
import os
import re

from harness import tlc
from harness.replay import codec, colvalues as CV
from harness.replay import wire_bind as wb

INVARIANTS = ["CVTypeOK", "CallsIndependent", "ExactInstant", "InexactNeighbours", "DateForms", "TimeForms", "FloatWidths", "WideInts", "Headers"]
WITNESSES = {
    "scalar": ["Witness_SummerTime", "Witness_SameWallTwoOffsets", "Witness_NegativeOffset", "Witness_MsProne", "Witness_Pre1970Inexact",
               "Witness_YearOne", "Witness_Year9999", "Witness_OutsideOpen", "Witness_WideVarint"],
    "calls": ["Witness_WinterThenSummer", "Witness_RepeatedHour"],
    "tuple": ["Witness_TupleNull"], "udt": ["Witness_Udt"], "nest": ["Witness_Nested"], "set": ["Witness_SetOfDates"],
}
FAMILIES = ["scalar", "calls", "list", "set", "map", "tuple", "udt", "nest"]
JVM = {"JAVA_TOOL_OPTIONS": "-XX:TieredStopAtLevel=1 -XX:ParallelGCThreads=2 -Xms1g"}


def constants(families, rich, parts=16):
    c = codec.constants(True, [])                      # Codec.tla's own constants: unused here (no Codec family enumerated)
    c.update(CVFamilies=set(families), CVRich=bool(rich), Parts=parts)
    return c


def enumerate_cases(ctx, families, rich, label, timeout=3000):
    """-> list of case states (seeds dropped), or None after reporting a violation of the specification itself"""
    wit = [w for f in families for w in WITNESSES.get(f, ())]
    cfg = tlc.write_cfg(os.path.join(ctx.scratch, "ColumnValues_%s.cfg" % re.sub(r"\W+", "_", label)[:40]), init="CVInit", next="CVNext",
                        constants=constants(families, rich), invariants=INVARIANTS + wit, deadlock=False)
    res, states = wb.enumerate_fast(tlc, "ColumnValues", cfg, ctx.scratch, timeout=timeout, extra=("-continue",),
                                    env=JVM if ctx.quick else None)
    ctx.add_tlc(res, label)
    violated = set(re.findall(r"Invariant (\S+) is violated", res.out))
    real = sorted(violated & set(INVARIANTS))
    if real:
        ctx.violation("TLC: invariant %s violated in ColumnValues.tla (the reference definitions themselves are inconsistent)" % real,
                      replay={"invariants": real}, signature="spec:" + real[0])
        return None
    if res.left or "Model checking completed" not in res.out:
        raise tlc.MachineryError("TLC did not finish the enumeration %s: %s" % (label, res.out[-1500:]))
    missing = [w for w in wit if w not in violated]
    if missing:
        raise tlc.MachineryError("vacuity witnesses not reached in %s: %s" % (label, missing))
    ctx.count("vacuity_witnesses_reached", len(wit))
    cases = [s for s in states if s["expect"] != "seed"]
    seen = {family_of(s["ty"]) for s in cases}
    for f in families:
        if f not in seen:
            raise tlc.MachineryError("vacuity: family %s produced no case in %s" % (f, label))
    return cases


def family_of(t):
    if CV.is_calls(t):
        return "calls"
    if codec.is_scalar(t):
        return "scalar"
    return "nest" if codec.depth(t) > 1 and t[0] != "udt" else t[0]


def leaf_encodings(cases):
    """leaf_key -> acceptable encodings (hex) of every scalar case: what a leaf inside a composite must be stored as"""
    out = {}
    for s in cases:
        if codec.is_scalar(s["ty"]) and s["expect"] == "ok":
            out[CV.leaf_key(s["ty"][0], s["val"])] = {bytes(e).hex() for e in s["img"]}
    return out
