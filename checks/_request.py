"""Shared driver for C14 / C15 / C16 / C17 (spec/Request.tla bound to the real Session / ResponseFuture)."""
import copy
import os
from collections import deque

from harness import tlc

INV = {
    "C14": ["Inv_Once", "Inv_Same", "Inv_Delivered"],
    "C15": ["Inv_Armed", "Inv_TimeoutHasConn"],
    "C16": ["Inv_RetryNum", "Inv_NoSpecUnlessIdempotent"],
    "C17": ["Inv_PlanOrder", "Inv_Skipped", "Inv_Exhausted", "Inv_Target", "Inv_NHAListed"],
}
PROPS = {
    "C14": [], "C15": [],
    "C16": ["Step_Decision", "Step_Task", "Step_NothingAfterError"],
    "C17": ["Step_Exhausted"],
}
ALL_INV = ["TypeOK"] + [i for p in ("C14", "C15", "C16", "C17") for i in INV[p]]
ALL_PROPS = [i for p in ("C14", "C15", "C16", "C17") for i in PROPS[p]]

ALLK = {"ReadTimeout", "WriteTimeout", "Unavailable", "OverloadedErrorMessage", "IsBootstrappingErrorMessage",
        "ServerError", "ConnectionShutdown"}
D4 = {"RETRY", "NEXT", "RETHROW", "IGNORE"}
BASE = dict(NHosts=3, PoolConds=set(), MaxBad=0, SpecChoices={0, 1, 2}, IdemChoices={True}, TargetChoices={0},
            OkKinds={"rows"}, ErrKinds={"Unavailable"}, FatalKinds=set(), Decisions=D4, CLs={99}, MaxRetries=1,
            MaxEpoch=1, Timeouts=True, Late=True, IdChoices={"default"}, TimeChoices={0}, PrepChoices={"none"})


def _c(**kw):
    c = dict(BASE)
    c.update(kw)
    return c


# quick: graphs whose every edge is replayed.  thorough: the same + a large exhaustive model + simulated behaviours.
GRAPHS = {
    "C14": [("0-2 speculative x 1 retry x answers in any order x timeout x late answers",
             _c(ErrKinds={"Unavailable"}, Decisions=D4)),
            ("schema-changing statement: the outcome is published by the refresh task, which may raise",
             _c(SpecChoices={0, 1}, OkKinds={"rows", "schema"}, Decisions={"RETRY", "RETHROW"}))],
    "C15": [("silent / late nodes, first page and next page, missing or busy pools",
             _c(OkKinds={"rows", "more"}, Decisions={"RETRY", "NEXT"}, MaxEpoch=2, Late=False,
                PoolConds={"missing", "busy"}, MaxBad=1, IdChoices={"one"})),
            ("speculative delays that do / do not fit into what remains of the timeout (timeout, delay) = (5,2) (4,2) (1,2)",
             _c(SpecChoices={1, 3}, OkKinds={"rows", "more"}, Decisions={"RETRY"}, MaxEpoch=2, Late=False,
                TimeChoices={502, 402, 102})),
            ("a saturated first host: the 2 s borrow outlasts the 1 s timeout before any connection is held (3 re-checks)",
             _c(SpecChoices={0}, Decisions={"RETRY"}, Late=False, PoolConds={"busy"}, MaxBad=3, TimeChoices={100}))],
    "C16": [("every retryable error x every decision x consistency x idempotence",
             _c(SpecChoices={0, 1}, IdemChoices={True, False}, ErrKinds=ALLK, CLs={99, 0, 4}, Late=False, Timeouts=False)),
            ("bound statements: own is_idempotent flag x the PreparedStatement's flag",
             _c(SpecChoices={1, 2}, IdemChoices={True, False}, PrepChoices={"yes", "no"}, Decisions={"RETRY", "RETHROW"},
                Late=False, Timeouts=False))],
    "C17": [("all 5^3 pool vectors, explicit target host or none",
             _c(SpecChoices={0, 1}, TargetChoices={0, 2}, PoolConds={"missing", "shutdown", "busy", "failing"}, MaxBad=3,
                ErrKinds={"Unavailable", "ConnectionShutdown"}, Decisions={"RETRY", "NEXT", "RETHROW"}, Late=False,
                Timeouts=False, IdChoices={"zero"}))],
}
# further graphs replayed edge by edge in the thorough tier only
MORE_GRAPHS = {
    "C15": [("timeout / speculative delay (5,2) (4,2) (3,2) (1,2) x 0-3 speculative executions x retries x next page",
             _c(SpecChoices={0, 1, 2, 3}, OkKinds={"rows", "more"}, Decisions={"RETRY", "NEXT", "RETHROW"}, MaxEpoch=2, Late=False,
                PoolConds={"missing"}, MaxBad=1, TimeChoices={502, 402, 302, 102}))],
    "C14": [("stream id 0 for every attempt / for the first attempt: which request the timeout deregisters",
             _c(Decisions={"RETRY", "NEXT", "RETHROW"}, IdChoices={"zero", "one"})),
            ("fatal error answers", _c(SpecChoices={0, 1}, FatalKinds={"SyntaxException"}, Decisions={"RETRY", "RETHROW"})),
            ("two pages (start_fetching_next_page) over 2 hosts, late answers",
             _c(NHosts=2, OkKinds={"rows", "more"}, Decisions={"RETRY", "RETHROW"}, MaxEpoch=2))],
}
BIG = {
    "C14": ("0-2 speculative x 2 retries x all answer kinds x 2 pages x a failing pool",
            _c(OkKinds={"rows", "void", "more"}, ErrKinds={"Unavailable", "ConnectionShutdown"},
               FatalKinds={"SyntaxException"}, MaxRetries=2, MaxEpoch=2, PoolConds={"failing"}, MaxBad=1)),
    "C15": ("two pages x every pool condition on up to 2 hosts x 2 retries",
            _c(OkKinds={"rows", "more", "void"}, ErrKinds={"Unavailable", "ConnectionShutdown"}, MaxRetries=2, MaxEpoch=2,
               PoolConds={"missing", "busy", "failing", "shutdown"}, MaxBad=2, IdChoices={"default", "one"})),
    "C16": ("7 error kinds x 4 decisions x consistency {None, ANY, QUORUM} x 2 retries x speculative 0-1 x idempotence, timeout",
            _c(SpecChoices={0, 1}, IdemChoices={True, False}, ErrKinds=ALLK, CLs={99, 0, 4}, MaxRetries=2, Late=False,
               IdChoices={"default", "zero"})),
    "C17": ("all 6^4 pool vectors (missing, shut down, busy, failing, unwritable, healthy) x target host 0-4 x 2 retries",
            _c(NHosts=4, SpecChoices={0, 1}, TargetChoices={0, 1, 2, 3, 4},
               PoolConds={"missing", "shutdown", "busy", "failing", "unwritable"}, MaxBad=4,
               ErrKinds={"Unavailable", "ConnectionShutdown"}, MaxRetries=2, Late=False, Timeouts=False,
               IdChoices={"zero"})),
}
LIVENESS = _c(NHosts=2, OkKinds={"rows", "more"}, Decisions={"RETRY", "NEXT", "RETHROW"}, MaxEpoch=2, Late=False,
              PoolConds={"missing"}, MaxBad=1, TimeChoices={0, 302})
TRACE_CONSTS = dict(NHosts=3, PoolConds={"missing", "shutdown", "busy", "failing", "unwritable", "noconn"}, MaxBad=3,
                    SpecChoices={0, 1, 2, 3}, IdemChoices={True, False}, TargetChoices={0, 1, 2, 3},
                    OkKinds={"rows", "more", "void", "schema"}, ErrKinds=ALLK, FatalKinds={"SyntaxException", "InvalidRequest"},
                    Decisions=D4, CLs={99, 0, 1, 4}, MaxRetries=3, MaxEpoch=2, Timeouts=True, Late=True,
                    IdChoices={"default", "zero", "one"}, TimeChoices={0, 502, 402, 102}, PrepChoices={"none", "yes", "no"})

ACTIONS = ["Start", "AnsOk", "AnsErr", "StoreErr", "SpecFire", "TimeoutFire", "RetryTask"]
# Witness_* predicates of Request.tla (negated reachability) that TLC itself must violate on the first graph configuration
TLA_WITNESSES = {
    "C14": ["Witness_LateAnswer", "Witness_TwoInFlight", "Witness_TimeoutKeepsAtt", "Witness_RetryAfterTimeout", "Witness_RefreshRaises"],
    "C15": ["Witness_Page2Unset", "Witness_Page2Timeout", "Witness_Unfit", "Witness_Recheck3"],
    "C16": ["Witness_SameHostTwice", "Witness_RetryCL", "Witness_RetryAtANY", "Witness_BoundNotIdem"],
    "C17": ["Witness_NoHost", "Witness_NoHostAfterSend", "Witness_SkipAll", "Witness_TaskBeforeStore"],
}


def _tup(v):
    return tuple(v) if isinstance(v, tuple) else tuple(v[k] for k in sorted(v))


# reachability witnesses (vacuity): name -> predicate over one spec state; each must hold somewhere in the graph
WITNESS = {
    "C14": {
        "late answer consults the policy after completion": lambda s: any(not e["live"] for e in s["policyLog"]),
        "two attempts in flight": lambda s: len(s["att"]) >= 2,
        "timed out with an attempt still registered": lambda s: s["final"] == "OperationTimedOut" and len(s["att"]) > 0,
        "retry task runs after the timeout": lambda s: s["act"]["name"] == "RetryTask" and s["final"] == "OperationTimedOut",
        "schema refresh raised and the request still got its outcome": lambda s: s["act"]["name"] == "RefreshTask"
        and s["act"]["k"] == "raises" and s["final"] == "empty" and sum(_tup(s["cb"])) == 1,
                "answer after completion": lambda s: s["act"]["name"] in ("AnsOk", "AnsErr", "AnsFatal") and s["final"] != "unset"
        and sum(_tup(s["cb"])) + sum(_tup(s["eb"])) >= 1 and len(s["sentLog"]) >= 2,
    },
    "C15": {
        "second page incomplete": lambda s: s["epoch"] == 2 and s["final"] == "unset",
        "second page timed out": lambda s: s["epoch"] == 2 and s["final"] == "OperationTimedOut",
        "speculative timer re-armed": lambda s: s["act"]["name"] == "SpecFire" and s["timer"] == "spec",
        "speculative execution offered but its delay does not fit into the remaining timeout": lambda s: bool(s["unfit"]) and s["tm"][0] > 0,
        "timed out after 3 re-checks without ever holding a connection": lambda s: s["act"]["name"] == "RecheckFire"
        and s["final"] == "OperationTimedOut" and s["lastConn"] == 0,
        "timeout timer after speculative executions": lambda s: s["act"]["name"] == "SpecFire" and s["timer"] == "timeout",
    },
    "C16": {
        "same host twice": lambda s: len(set(s["tried"])) < len(s["tried"]),
        "policy changed the consistency": lambda s: s["cl"] != 10 and len(s["sentLog"]) >= 2 and s["sentLog"][-1]["cl"] != 10,
        "retry sent at consistency ANY (numeric 0)": lambda s: s["cl"] == 0 and len(s["sentLog"]) >= 2 and s["sentLog"][-1]["cl"] == 0,
        "second consultation with retry_num 1": lambda s: any(e["rn"] == 1 for e in s["policyLog"]),
        "non-idempotent BoundStatement of an idempotent PreparedStatement": lambda s: s["started"] and not s["idem"] and str(s["prep"]) == "yes",
        "non-idempotent statement": lambda s: s["started"] and not s["idem"],
        "ignored": lambda s: s["final"] == "empty" and any(e["dec"] == "IGNORE" for e in s["policyLog"]),
    },
    "C17": {
        "NoHostAvailable at once": lambda s: s["final"] == "NoHostAvailable" and len(s["sentLog"]) == 0,
        "NoHostAvailable after a send": lambda s: s["final"] == "NoHostAvailable" and len(s["sentLog"]) > 0,
        "every host has an error entry": lambda s: s["started"] and all(e != "none" for e in _tup(s["errs"])),
        "first attempt carries stream id 0": lambda s: s["started"] and str(s["ids"]) in ("zero", "one") and len(s["sentLog"]) > 0,
        "retry task raised NoHostAvailable before the failed host's error was stored":
            lambda s: s["act"]["name"] == "RetryTask" and s["pend"]["host"] != 0 and s["final"] == "NoHostAvailable",
        "explicit target host": lambda s: s["started"] and s["target"] != 0,
        "retry on a host whose pool lost its connection": lambda s: s["act"]["name"] == "RetryTask"
        and "noconn" in _tup(s["pool"]) and len(s["sentLog"]) >= 2,
    },
}


def owner_of_invariant(name):
    for p in ("C14", "C15", "C16", "C17"):
        if name in INV[p] or name in PROPS[p]:
            return p
    if name == "Completes" or name == "temporal":
        return "C15"
    return None


def cover_walks(nodes, edges, init, max_len=60):
    """Walks from initial states that together traverse every edge of the graph (nothing else)."""
    succ = {}
    for s, d, _ in edges:
        succ.setdefault(s, []).append(d)
    parent = {i: None for i in init}
    dq = deque(init)
    while dq:
        u = dq.popleft()
        for v in succ.get(u, ()):
            if v not in parent:
                parent[v] = u
                dq.append(v)

    def prefix(n):
        p = []
        while n is not None:
            p.append(n)
            n = parent[n]
        return p[::-1]
    unc = set((a, b) for a, b, _ in edges if a in parent)
    walks = []
    for a, b in sorted(unc):
        if (a, b) not in unc:
            continue
        w = prefix(a) + [b]
        for e in zip(w, w[1:]):
            unc.discard(e)
        cur = b
        while len(w) < max_len:
            nx = [v for v in succ.get(cur, ()) if (cur, v) in unc]
            if not nx:
                break
            unc.discard((cur, nx[0]))
            w.append(nx[0])
            cur = nx[0]
        walks.append(w)
    return walks


def _acts(states):
    return [{k: v for k, v in dict(s["act"]).items()} for s in states[1:]]


def _short(acts):
    return tuple((a["name"], a["a"], a["k"], a["d"], a["c"]) for a in acts)


class Run:
    def __init__(self, ctx, pid):
        from harness.replay import request as rq
        self.ctx, self.pid, self.rq = ctx, pid, rq
        self.replayed = 0
        self.conform = 0
        self.other = {}                # divergences owned by the other three properties (not reported here)
        self.reported = {}

    # ---- a divergence found on the real code
    def report(self, div, consts, states, direction):
        rq = self.rq
        if self.pid not in div["owners"]:
            self.other[div["signature"]] = self.other.get(div["signature"], 0) + 1
            return
        sig = rq.signature_for(self.pid, div)
        n = self.reported.get(sig, 0)
        self.reported[sig] = n + 1
        if n >= 3:                     # three replay files per class of failure are enough
            return
        acts = _acts(states)[:div["step"]]
        self.ctx.violation(
            "%s: real objects diverge from Request.tla at step %d (%s)%s: %s"
            % (direction, div["step"], div["action"], " [late]" if div["late"] else "", div["diff"]),
            replay={"nhosts": consts["NHosts"], "max_epoch": consts["MaxEpoch"], "config": rq.config_of(states[0]),
                    "actions": acts, "divergence": div},
            signature=sig)

    def replay_behaviour(self, consts, states, direction="replay"):
        divs = self.rq.replay(consts["NHosts"], states, max_epoch=consts["MaxEpoch"])
        self.replayed += 1
        if not divs:
            self.conform += 1
        for dv in divs:
            self.report(dv, consts, states, direction)
        return divs


def check_spec(ctx, pid, label, consts, graph):
    """TLC on one configuration. Returns (res, nodes, edges, init) (graph=True) or (res, None, None, None);
    None instead of res when an invariant of the spec itself is violated."""
    cfg = tlc.write_cfg(os.path.join(ctx.scratch, "req_%d.cfg" % len(ctx.extra.get("tlc_runs", []))), constants=consts,
                        invariants=ALL_INV, properties=ALL_PROPS, deadlock=False)
    if graph:
        res, nodes, edges, init = tlc.state_graph("Request", cfg, ctx.scratch, timeout=900)
    else:
        res = tlc.check_model("Request", cfg, ctx.scratch, timeout=1500, heap="8g")
        nodes = edges = init = None
    ctx.add_tlc(res, label)
    if res.violation:
        if res.invariant == "TypeOK":
            raise tlc.MachineryError("TypeOK violated on Request.tla (%s)" % label)
        own = owner_of_invariant(res.invariant)
        if own == pid:
            ctx.violation("TLC: %s violated on Request.tla (%s)" % (res.invariant, label),
                          replay={"constants": {k: sorted(v) if isinstance(v, (set, frozenset)) else v for k, v in consts.items()},
                                  "trace": [dict(s.get("act", {})) for _, s in res.trace()]},
                          signature="spec:%s" % res.invariant)
        else:
            raise tlc.MachineryError("invariant %s (of %s) violated on Request.tla itself (%s)" % (res.invariant, own, label))
        return None, None, None, None
    return res, nodes, edges, init


def run(ctx, pid):
    from harness.replay import request as rq
    R = Run(ctx, pid)
    ctx.note("graph_edges", 0)
    ctx.note("graph_edges_replayed", 0)
    seen_acts = set()
    witnesses = {k: False for k in WITNESS[pid]}
    selftest = {}

    # ---- exhaustive small models; spec -> code replay of every edge
    for label, consts in GRAPHS[pid] + ([] if ctx.quick else MORE_GRAPHS.get(pid, [])):
        res, nodes, edges, init = check_spec(ctx, pid, label, consts, graph=True)
        if res is None:
            return
        for s in nodes.values():
            seen_acts.add(str(s["act"]["name"]))
            for k, f in WITNESS[pid].items():
                if not witnesses[k] and f(s):
                    witnesses[k] = True
        walks = cover_walks(nodes, edges, init)
        covered = set()
        for w in walks:
            covered.update(zip(w, w[1:]))
        ctx.extra["graph_edges"] += len(set((s, d) for s, d, _ in edges))
        ctx.extra["graph_edges_replayed"] += len(covered)
        for n, w in enumerate(walks):
            states = [nodes[x] for x in w]
            divs = R.replay_behaviour(consts, states, "replay")
            acts = _acts(states)
            names = set(a["name"] for a in acts)
            if names & {"TimeoutFire", "SpecFire", "RetryTask", "StartNextPage"} or len(acts) >= 4:
                ctx.nontrivial(_short(acts))
            if n % 400 == 0:
                ctx.sample({"direction": "spec->code", "config": rq.config_of(states[0]), "actions": [list(x) for x in _short(acts)],
                            "conforms": not divs})
        # binding self-test (spec -> code): a flipped expectation must be noticed
        if "flipped_expectation_noticed" not in selftest:
            w = next((w for w in walks if len(w) >= 3), None)
            if w is not None:
                states = [dict(nodes[x]) for x in w[:3]]
                states[1]["retries"] = states[1]["retries"] + 1
                dv = rq.replay(consts["NHosts"], states, max_epoch=consts["MaxEpoch"], drain=False)
                if not dv or "retries" not in dv[0]["diff"]:
                    raise tlc.MachineryError("binding self-test failed: a flipped expectation was not noticed by the replay")
                selftest["flipped_expectation_noticed"] = 1
    ctx.note("exhaustive", ctx.extra["graph_edges"] == ctx.extra["graph_edges_replayed"])
    need = [a for a in ACTIONS if a != "TimeoutFire" or any(c["Timeouts"] for _, c in GRAPHS[pid])]
    need += ["StartNextPage"] if any(c["MaxEpoch"] > 1 for _, c in GRAPHS[pid]) else []
    missing = [a for a in need if a not in seen_acts]
    if missing:
        raise tlc.MachineryError("actions never taken in the exhaustive models: %s" % missing)
    unreached = [k for k, v in witnesses.items() if not v]
    if unreached:
        raise tlc.MachineryError("vacuity witnesses not reachable: %s" % unreached)
    ctx.note("vacuity_witnesses_reached", sorted(witnesses))
    ctx.note("nontrivial_rule", "a replayed behaviour counts when it contains a timer firing, a retry task or a page fetch, or has "
                                "at least 4 actions (distinct action sequences); a recorded trace counts when it contains one of those events")

    # ---- C15: liveness under fairness of the timer callbacks (every incomplete execution / page fetch completes)
    if pid == "C15":
        lcfg = tlc.write_cfg(os.path.join(ctx.scratch, "live.cfg"), spec="FairSpec", constants=LIVENESS,
                             invariants=INV["C15"], properties=["Completes"], deadlock=False)
        lres = tlc.check_model("Request", lcfg, ctx.scratch, timeout=900)
        ctx.add_tlc(lres, "liveness: Completes under WF(SpecFire), WF(TimeoutFire)")
        if lres.violation:
            ctx.violation("TLC: Completes (every execution and page fetch finishes) violated on Request.tla",
                          replay={"trace": [dict(s.get("act", {})) for _, s in lres.trace()]}, signature="spec:Completes")
            return

    # ---- thorough: a large exhaustive model and simulated behaviours of it replayed on the real objects
    if not ctx.quick:
        for wname in TLA_WITNESSES[pid]:
            hit = False
            for n, (_, wconsts) in enumerate(GRAPHS[pid]):
                wcfg = tlc.write_cfg(os.path.join(ctx.scratch, "%s_%d.cfg" % (wname, n)), constants=wconsts, invariants=[wname],
                                     deadlock=False)
                wres = tlc.check_model("Request", wcfg, ctx.scratch, timeout=600)
                if wres.invariant == wname:
                    hit = True
                    break
            if not hit:
                raise tlc.MachineryError("vacuity witness %s not reachable according to TLC" % wname)
        ctx.note("tlc_witnesses_violated", TLA_WITNESSES[pid])
        label, big = BIG[pid]
        res, _, _, _ = check_spec(ctx, pid, "exhaustive (thorough): " + label, big, graph=False)
        if res is None:
            return
        scfg = tlc.write_cfg(os.path.join(ctx.scratch, "sim.cfg"), constants=big, invariants=ALL_INV, deadlock=False)
        sres, behs = tlc.simulate("Request", scfg, ctx.scratch, num=2500, depth=24, seed=ctx.seed, timeout=600)
        if sres.violation:
            raise tlc.MachineryError("simulation found an invariant violation that the exhaustive run did not: %s" % sres.invariant)
        nb = 0
        for b in behs:
            if len(b) < 2:
                continue
            R.replay_behaviour(big, b, "replay(simulated)")
            nb += 1
            ctx.nontrivial(_short(_acts(b)))
        ctx.note("simulated_behaviours_replayed", nb)

    ctx.note("behaviours_replayed", R.replayed)
    ctx.note("behaviours_conforming", R.conform)
    ctx.traces_validated += R.conform

    # ---- code -> spec: recorded random runs of the real objects validated by TLC against Trace_Request.tla
    n_tr = 150 if ctx.quick else 2500
    traces = [rq.record(ctx.rng, max_events=14 if ctx.quick else 18) for _ in range(n_tr)]
    good = len(traces)
    # binding self-test (code -> spec): corrupted copies (one field changed / one event dropped) of recorded traces
    victims = [i for i, t in enumerate(traces) if len(t) >= 5 and all("post" in e for e in t[1:5])][:12]
    for i in victims:
        bad1 = copy.deepcopy(traces[i])
        bad1[3]["post"]["cl"] += 1
        bad2 = copy.deepcopy(traces[i])
        del bad2[1]                      # Start dropped: nothing after it is enabled
        traces += [bad1, bad2]
    tcfg = tlc.write_cfg(os.path.join(ctx.scratch, "trace.cfg"), init="TraceInit", next="TraceNext", constants=TRACE_CONSTS,
                         invariants=ALL_INV, constraints=["Progress"], postcondition="Done", deadlock=False)
    tres, prog = tlc.validate_traces("Trace_Request", tcfg, traces, ctx.scratch, timeout=1800)
    ctx.add_tlc(tres, "trace validation")
    if tres.violation:
        own = owner_of_invariant(tres.invariant)
        if own == pid:
            ctx.violation("invariant %s violated in a state of a recorded execution" % tres.invariant,
                          replay={"trace": [dict(s) for _, s in tres.trace()][-3:]}, signature="trace-inv:%s" % tres.invariant)
        return
    tested = 0
    for n, i in enumerate(victims):
        if prog[i] < 5:
            continue                    # the original itself is rejected before the corrupted spot: nothing to learn
        b1, b2 = prog[good + 2 * n], prog[good + 2 * n + 1]
        if b1 != 4 or b2 > len(traces[good + 2 * n + 1]):
            raise tlc.MachineryError("binding self-test failed: corrupted/dropped trace accepted (%s, %s)" % (b1, b2))
        tested += 1
    if victims and not tested and not any(prog[i] != len(traces[i]) + 1 for i in range(good)):
        raise tlc.MachineryError("binding self-test could not run: no recorded trace long enough")
    selftest.update({"corrupted_rejected": tested, "dropped_rejected": tested})
    ctx.note("binding_selftest", selftest)
    accepted = 0
    rejected = []
    for i in range(good):
        t = traces[i]
        if prog[i] == len(t) + 1:
            accepted += 1
            if any(e["e"] in ("TimeoutFire", "SpecFire", "RetryTask", "StartNextPage") for e in t):
                ctx.nontrivial(("trace", i, len(t)))
        else:
            rejected.append(i)
    # which fields does each rejected event disagree on?  one more TLC run over variants of the rejected prefix in which
    # the last event carries only one group of fields
    if rejected:
        groups = ["C14", "C15", "C16", "C17", "rest"]
        variants, index = [], []
        for i in rejected:
            t = traces[i]
            j = prog[i] - 1              # index (0-based) of the rejected event
            if j < 1 or "post" not in t[j]:
                continue
            for g in groups + ["none"]:
                ev = {k: v for k, v in t[j].items() if k != "post"}
                if g != "none":
                    ev["post"] = {k: v for k, v in t[j]["post"].items() if k in rq.GROUPS[g]}
                variants.append(t[:j] + [ev])
                index.append((i, g))
        vprog = []
        if variants:
            vres, vprog = tlc.validate_traces("Trace_Request", tcfg, variants, ctx.scratch, timeout=1800)
            ctx.add_tlc(vres, "trace validation: field groups of rejected events")
        bad_groups = {}
        for (i, g), v, pr in zip(index, variants, vprog):
            if pr != len(v) + 1:
                bad_groups.setdefault(i, []).append(g)
        for i in rejected:
            t = traces[i]
            j = prog[i] - 1
            ev = t[j] if j >= 0 else t[0]
            if ev["e"] == "Anomaly":
                name = ev["during"].get("e")
                fields, extra = [], {"_raised": {"spec": "no exception", "code": ev["what"]}}
            elif "none" in bad_groups.get(i, []) or j < 1:
                name, fields, extra = ev["e"], [], {"_refused": {"spec": "action not enabled in this state", "code": "performed"}}
            else:
                name = ev["e"]
                fields = [f for g in bad_groups.get(i, []) for f in rq.GROUPS[g] if f in ev.get("post", {})]
                if "C15" in bad_groups.get(i, []) and "C16" in bad_groups.get(i, []) and name == "StartNextPage":
                    fields = [f for f in fields if f in ("timer", "specLeft")] if set(bad_groups[i]) <= {"C15", "C16"} else fields
                extra = {}
            prev_final = t[j - 1].get("post", {}).get("final", "unset") if j >= 2 else "unset"
            late = rq._is_late(name, prev_final)
            sig, own = rq.attribute(name, fields, late, t[0].get("target", 0), t[0].get("idem", True),
                                    {f: ev.get("post", {}).get(f) for f in fields})
            d = {f: {"spec": "differs", "code": ev.get("post", {}).get(f)} for f in fields}
            d.update(extra)
            dv = {"step": j, "action": {"name": name, **{k: ev.get(k) for k in ("a", "k", "d", "c") if k in ev}},
                  "diff": d, "late": late, "owners": sorted(own), "signature": sig.replace("replay:", "trace:", 1)}
            if pid not in dv["owners"]:
                R.other[dv["signature"]] = R.other.get(dv["signature"], 0) + 1
                continue
            sg = dv["signature"]
            if sg.startswith("trace:") and not sg.endswith(":not-performed"):
                mine = sorted(f for f in fields if rq.FIELD_OWNER.get(f) == pid) or sorted(fields)
                sg = "trace:%s:%s" % (name, ",".join(mine))
            n = R.reported.get(sg, 0)
            R.reported[sg] = n + 1
            if n >= 3:
                continue
            ctx.violation("recorded execution rejected by Request.tla at event %d (%s)%s; fields that disagree: %s"
                          % (j, {k: v for k, v in ev.items() if k != "post"}, " [late]" if late else "", fields or extra),
                          replay={"events": t[:j + 1], "divergence": dv}, signature=sg)
    ctx.sample({"direction": "code->spec", "events": [{k: v for k, v in e.items() if k != "post"} for e in traces[0][:12]]})
    ctx.traces_validated += accepted
    ctx.note("traces_recorded", good)
    ctx.note("traces_accepted", accepted)
    ctx.note("divergence_classes_reported", dict(R.reported))
    ctx.note("divergence_classes_of_other_properties", dict(R.other))
    ctx.evaluations = R.replayed + good
    ctx.assumptions += [
        "loop-thread callbacks (answers, connection errors, timers) are atomic w.r.t. each other, as in every shipped reactor; "
        "execute_async, start_fetching_next_page and each _retry_task run as one step",
        "SimConnection/FakeNode/SimExecutor reproduce the reactor, node and thread-pool contracts; harness/wire.py is right",
        "one ResponseFuture, <= 4 hosts, <= 2 speculative executions, <= 2 granted retries (3 in recorded runs), <= 2 pages; "
        "start_fetching_next_page only when no attempt of the previous page is outstanding",
        "stream ids are not re-used within one run (FIFO recycling of 300 ids), so (_connection, _req_id) designates at most one attempt",
        "NoHostAvailable.errors must list every skipped host and every host whose attempt failed; a host whose attempt is "
        "still in flight need not be listed",
    ]


def replay(ctx, pid, obj):
    """Re-execute a replay file against the real objects (no TLC)."""
    from harness.replay import request as rq
    if "actions" in obj:
        cfg = obj["config"]
        h = rq.ReqHarness(obj["nhosts"], cfg["pool"], cfg["idem"], cfg["spec"], cfg["target"], max_epoch=obj.get("max_epoch", 2),
                          ids=cfg.get("ids", "default"), tm=tuple(cfg.get("tm", (0, 0))), prep=cfg.get("prep", "none"))
        print("config", cfg)
        acts = list(obj["actions"])
        dv = obj.get("divergence") or {}
        if dv.get("action") and dv["action"].get("name") not in (None, "Drain", "Init") and len(acts) < dv.get("step", 0):
            acts.append(dv["action"])
        for a in acts:
            print("->", a)
            try:
                h.do(a)
            except Exception as ex:        # noqa: BLE001
                print("   raised %s: %s" % (type(ex).__name__, ex))
                break
            p = h.project()
            print("   ", {k: p[k] for k in ("tried", "att", "sentLog", "policyLog", "queue", "timer", "final", "result", "cb", "eb", "errs")})
        if dv.get("action", {}).get("name") == "Drain":
            print("-> drain (virtual clock to the deadline):", h.drain())
        if dv:
            print("expected by the specification:", {k: v.get("spec") for k, v in dv.get("diff", {}).items()})
        h.shutdown()
    elif "events" in obj:
        for e in obj["events"]:
            print({k: v for k, v in e.items() if k != "post"})
            if "post" in e:
                print("   ", {k: e["post"].get(k) for k in ("tried", "att", "sentLog", "policyLog", "queue", "timer", "final", "result", "cb", "eb")})
        print("divergence:", obj.get("divergence"))
    else:
        print(obj)
