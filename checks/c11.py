"""C11 - messages pushed concurrently reach the socket whole and in order (spec/PushQueue.tla).

Spec  : push -> one FIFO loop task per message -> all chunks contiguously into the write queue -> writer.
TLC   : invariants Whole / PerThreadOrder / Complete and liveness EventuallyFlushed, exhaustive small constants.
Bind  : trace validation of REAL runs: AsyncioConnection (over a socketpair) and TwistedConnection (loopback
        listener owned by the harness), N OS threads pushing tagged messages with sizes around the
        out_buffer_size threshold; the peer's byte stream is parsed into chunk events and validated by TLC.
"""
import copy
import os

from harness import tlc

META = {
    "property_id": "C11",
    "engine": "PushQueue",
    "technique": "TLA+ spec of the reactor write path checked by TLC (safety + liveness); byte streams received from the real asyncio and twisted reactors under multi-threaded pushes validated as traces against the spec",
    "level": "model_checking",
    "level_text": "TLC explores all interleavings of pushes from 2-3 threads, loop tasks and writer steps and checks that the "
                  "socket stream is a concatenation of whole messages in per-thread push order with nothing lost once "
                  "flushed (plus eventual flush under fairness). The real reactors are then run (real OS threads, real "
                  "sockets on socketpair/loopback) and every received stream must be a behaviour of the spec; a rejection "
                  "is a deterministic fact about received bytes (truncation, interleaving, duplication, loss).",
    "level_note": "Trusted: TLC; the stream parser in harness/replay/pushqueue.py; OS thread schedules are whatever the "
                  "kernel gives (sampling, not exhaustive, on the implementation side); 20-60 s completion timeout per run; "
                  "only the asyncio and twisted reactors can run on this interpreter (no libev/asyncore/gevent/eventlet).",
    "design_ref": "5.1 C11",
}

SIZES = [16, 4096 - 16, 4096, 4096 + 16, 8192 - 16, 8192, 8192 + 16, 12288 + 16]
MAXT = 8


def run(ctx):
    from harness.replay import pushqueue as pq
    consts = {"Threads": {1, 2}, "K": 2, "MaxChunks": 2} if ctx.quick else {"Threads": {1, 2, 3}, "K": 2, "MaxChunks": 3}
    cfg = tlc.write_cfg(os.path.join(ctx.scratch, "pq.cfg"), spec="Spec", constants=consts,
                        invariants=["Whole", "PerThreadOrder", "Complete"], properties=["EventuallyFlushed"], deadlock=False)
    res = tlc.check_model("PushQueue", cfg, ctx.scratch, coverage=True, timeout=3000)
    ctx.add_tlc(res, "exhaustive %s" % consts)
    if res.violation:
        ctx.violation("TLC: %s violated on PushQueue.tla" % res.invariant, replay={"trace": [dict(s) for _, s in res.trace()]},
                      signature="spec:%s" % res.invariant)
        return
    cov = res.coverage()
    zero = [a for a in ("Push", "RunTask", "Drain") if a in cov and cov[a][1] == 0]
    if zero:
        raise tlc.MachineryError("actions never taken: %s" % zero)
    for w in ("Witness_Interleaved", "Witness_MultiChunk"):
        wcfg = tlc.write_cfg(os.path.join(ctx.scratch, w + ".cfg"), constants=consts, invariants=[w], deadlock=False)
        if tlc.check_model("PushQueue", wcfg, ctx.scratch).invariant != w:
            raise tlc.MachineryError("vacuity witness %s not reachable" % w)
    ctx.note("vacuity_witnesses_reached", 2)

    # ---- real runs
    k_msgs = 6 if ctx.quick else 100
    seeds = range(2) if ctx.quick else range(6)
    thread_counts = (3, 4) if ctx.quick else (2, 3, 5, 8)
    runs = []
    for reactor in ("asyncio", "twisted"):
        for nt in thread_counts:
            for s in seeds:
                sizes = [[ctx.rng.choice(SIZES) for _ in range(k_msgs)] for _ in range(nt)]
                # every second asyncio run writes to a socket that takes at most 1500 / 700 bytes per send() call
                cap = (1500, 700)[(s // 2) % 2] if (reactor == "asyncio" and s % 2 == 1) else 0
                # in every other configuration pusher 1 pushes from the reactor's loop thread
                loop_pusher = 1 if (nt + s) % 2 == 0 else 0
                try:
                    ev = pq.run_reactor(reactor, nt, k_msgs, sizes, ctx.seed * 1000 + s, timeout=20 if ctx.quick else 60, cap=cap,
                                        loop_pusher=loop_pusher)
                except RuntimeError as ex:
                    if cap:
                        # with short writes a broken writer can lose or damage bytes so badly that the stream cannot be
                        # parsed back into tagged messages: that is a verdict on the driver, not on the machinery
                        ctx.violation("%s reactor, %d threads, socket taking at most %d bytes per send(): the byte stream "
                                      "could not be read back (%s)" % (reactor, nt, cap, str(ex)[:300]),
                                      replay={"reactor": reactor, "threads": nt, "sizes": sizes, "seed": ctx.seed * 1000 + s, "cap": cap},
                                      signature="stream:unreadable:short-writes")
                        continue
                    raise tlc.MachineryError("cannot run the %s reactor: %s" % (reactor, ex))
                for e in ev:
                    if e["e"] == "End":
                        e["pushed"] = e["pushed"] + [0] * (MAXT - len(e["pushed"]))
                runs.append({"reactor": reactor, "threads": nt, "seed": s, "events": ev, "cap": cap, "loop_pusher": loop_pusher})
    traces = [r["events"] for r in runs]
    good = len(traces)
    # binding self-test: swap two chunks of different messages / drop a chunk -> must be rejected
    victim = next(t for t in traces if sum(1 for e in t if e["e"] == "Chunk" and e["n"] > 1) >= 2 and len(t) > 6)
    bad1 = copy.deepcopy(victim)
    i = next(i for i, e in enumerate(bad1) if e["e"] == "Chunk" and e["n"] > 1 and e["k"] == 1)
    bad1[i], bad1[i + 1] = bad1[i + 1], bad1[i]
    bad2 = copy.deepcopy(victim)
    del bad2[len(bad2) // 2]
    traces = traces + [bad1, bad2]
    tconsts = {"Threads": set(range(1, MAXT + 1)), "K": k_msgs, "MaxChunks": 4}
    tcfg = tlc.write_cfg(os.path.join(ctx.scratch, "trace.cfg"), init="TraceInit", next="TraceNext", constants=tconsts,
                         invariants=["WholeLast", "FlushedClosed"] if not ctx.quick else ["Whole", "PerThreadOrder", "Complete", "WholeLast", "FlushedClosed"],
                         constraints=["Progress"], postcondition="Done", deadlock=False)
    tres, prog = tlc.validate_traces("Trace_PushQueue", tcfg, traces, ctx.scratch, timeout=3000)
    ctx.add_tlc(tres, "trace validation")
    if tres.violation:
        ctx.violation("invariant %s violated in a state explained by a real reactor's output" % tres.invariant,
                      replay={"trace": [dict(s) for _, s in tres.trace()][-3:]}, signature="trace-inv:%s" % tres.invariant)
        return
    if prog[good] == len(bad1) + 1 or prog[good + 1] == len(bad2) + 1:
        raise tlc.MachineryError("binding self-test failed: corrupted stream accepted")
    ctx.note("binding_selftest", {"swapped_rejected": 1, "dropped_rejected": 1})
    for i, r in enumerate(runs):
        t = r["events"]
        ctx.evaluations += 1
        if prog[i] == len(t) + 1:
            ctx.traces_validated += 1
            inter = sum(1 for a, b in zip(t, t[1:]) if a["e"] == b["e"] == "Chunk" and a["t"] != b["t"])
            if inter:
                ctx.nontrivial((r["reactor"], r["threads"], r["seed"], inter))
            continue
        ev = t[prog[i] - 1]
        what = "%s reactor, %d threads: received stream rejected at event %d: %s" % (r["reactor"], r["threads"], prog[i], ev)
        kind = ev["e"] if ev["e"] != "Chunk" else "order"
        if ev["e"] == "End" and ev.get("received_bytes") == 0:
            kind = "nothing-written"
        ctx.violation(what, replay={"reactor": r["reactor"], "threads": r["threads"], "events": t[max(0, prog[i] - 5):prog[i]]},
                      signature="%s:%s" % (r["reactor"], kind))
    ctx.sample({"reactor": runs[0]["reactor"], "threads": runs[0]["threads"], "events": runs[0]["events"][:10]})
    ctx.sample({"reactor": runs[-1]["reactor"], "threads": runs[-1]["threads"], "events": runs[-1]["events"][:10]})
    ctx.note("runs", len(runs))
    ctx.assumptions += ["kernel thread schedules are sampled, not enumerated", "stream parser is right"]


def replay(ctx, obj):
    for e in obj.get("events", []):
        print(e)
