"""XEVENTS - extension beyond the listed properties: the control connection's handling of server-pushed events and of
its own reconnection (spec/ControlEvents.tla).

Not registered in MANIFEST.json (the property list is fixed); run with `./check XEVENTS [--tier thorough]`.
Findings on the pinned tree are documented in findings/XEVENTS_*.py; each is reported as `deviation:<name>`."""
from checks import _controlevents

META = {
    "property_id": "XEVENTS",
    "engine": "ControlEvents",
    "technique": "TLA+ spec of event handling, scheduled refreshes, control reconnection and shutdown; every edge of the state "
                 "graphs replayed on a simulated cluster; recorded runs validated by TLC",
    "level": "model_checking",
    "level_text": _controlevents.LEVEL_TEXT,
    "level_note": "Extension, not a listed property. No session open, <= 3 hosts, all nodes agree on the membership, removed "
                  "hosts do not return; trusted base: TLC, the simulation doubles (SimConnection, FakeNode, SimExecutor, "
                  "SimScheduler), DetSched stops inside control reconnections and Cluster.shutdown, the projection.",
    "design_ref": "17 (extensions)",
    "extension": True,
}


def run(ctx):
    _controlevents.run(ctx)


def replay(ctx, obj):
    _controlevents.replay(ctx, obj)
