"""C05 - incoming frames are reassembled exactly under any TCP chunking.

Spec: spec/Framing.tla - the wire as tagged bytes <<frame, pos>>, Read(k) = read handler + maximal drain loop
      (header parse / deliver), v1/v2 8-byte and v3/v4 9-byte headers, responses to handlers, pushes to watchers.
TLC : exhaustive over every frame sequence of the configured shapes and every read split; invariants
      Inv_Sync, Inv_Prefix, Inv_Exact, Inv_NoPartial, Inv_Eager, Inv_Terminal.
Bind: spec -> code  every edge of the dumped state graph (= every (bytes buffered so far, size of next read)
                    pair of every sequence) is replayed into a real SimConnection fed with real frames from the
                    independent encoder; additionally every one of the 2^(L-1) complete splits of the short
                    sequences; projection compared after every read.
      code -> spec  random frame sequences / random chunkings of the real connection are recorded and
                    validated by TLC against Trace_Framing.tla with all invariants on.
"""
import copy
import itertools
import os
import re
import time

from harness import tlc

META = {
    "property_id": "C05",
    "engine": "Framing",
    "technique": "TLA+ spec of frame reassembly over a tagged byte stream checked exhaustively by TLC; every edge of the "
                 "state graph and every complete split of short sequences replayed into the real connection; recorded "
                 "random runs validated against the spec",
    "level": "model_checking",
    "level_text": "TLC enumerates every sequence of up to 3 frames (v1-v4 headers, responses and server pushes, several "
                  "body lengths) and, for each, every way to cut the byte stream into reads (all read sizes from every "
                  "buffer state, 1 byte included), checking on tagged bytes that frames are delivered once, in order, "
                  "with exactly their own body, to the handler of their own stream id (pushes to the watchers), that "
                  "nothing is delivered in part or held back, and that the buffer is always exactly the unconsumed "
                  "tail. Every edge of that graph is replayed on a real connection with real bytes from an independent "
                  "encoder, comparing handler/watcher invocations (stream, opcode, body, decoded class, order), buffer "
                  "length and _current_frame after each read; short sequences are additionally replayed under all "
                  "2^(L-1) complete splits. Random longer sequences with random chunkings are recorded from the real "
                  "connection and accepted by TLC (Trace_Framing).",
    "level_note": "Trusted: TLC; harness/wire.py (independent frame encoder); SimConnection's read-handler contract "
                  "(_iobuf.write + process_io_buffer, as in the shipped reactors); bounded scope (<=3 frames exhaustive, "
                  "<=6 frames / bodies <=1500 bytes in recorded runs). Body decoding is C04's subject: handlers are "
                  "recorders, bodies are compared as bytes.",
    "design_ref": "5.1 C05",
}

INVARIANTS = ["TypeOK", "Inv_Sync", "Inv_Prefix", "Inv_Exact", "Inv_AllWatchers", "Inv_NoPartial", "Inv_Eager", "Inv_Terminal"]
WITNESSES = ["Witness_PartialHeader", "Witness_PartialBody", "Witness_Pushed", "Witness_AllDone",
             "Witness_PushOtherId", "Witness_PushMinId", "Witness_RaisingWatcher"]


ALL_IDS = (-1, -2, -128, -32768)     # -1 is what Cassandra uses; the protocol reserves every negative id for the server


def _consts(vers, pos, neg, lo, hi, ids=(-1,)):
    from harness.replay.framing import WATCHERS, RAISING
    return {"Vers": set(vers), "PosLens": set(pos), "NegLens": set(neg), "PushIds": set(-i for i in ids), "MinFrames": lo,
            "MaxFrames": hi, "AbsHdr": 9, "Watchers": set(WATCHERS), "Raising": set(RAISING)}


def _frames_of(state):
    return [{"ver": int(f["ver"]), "neg": bool(f["neg"]), "blen": int(f["blen"]), "sid": int(f["sid"])} for f in state["frames"]]


def _spec_violation(ctx, res, label):
    ctx.violation("TLC: %s violated on Framing.tla (%s)" % (res.invariant, label),
                  replay={"kind": "spec", "trace": [dict(s) for _, s in res.trace()][-4:]},
                  signature="spec:%s" % res.invariant)


def _report(ctx, frames, reads, d, direction):
    keys = ",".join(sorted(d["diff"]))
    ctx.violation("%s: real connection diverges from Framing.tla at read #%d (k=%d) of %s: %s%s" % (
        direction, d["step"] + 1, d["k"], frames, d["diff"], (" error=" + d["error"]) if d.get("error") else ""),
        replay={"kind": "reads", "frames": frames, "reads": reads[:d["step"] + 1], "divergence": d},
        signature="replay:Read:%s" % keys)


def run(ctx):
    from harness.replay.framing import CodeUnderTestFailure
    try:
        _run(ctx)
    except tlc.MachineryError:
        if not ctx.violations:
            raise
        ctx.note("aborted_after_violations", "a later stage could not complete on the misbehaving driver")
    except CodeUnderTestFailure as exc:
        ctx.violation("the connection cannot be brought up over the read path under test: %s" % exc,
                      replay={"kind": "handshake", "what": str(exc)}, signature="handshake-over-read-path-fails")
    except Exception as exc:                     # anything else a misbehaving driver makes a later stage trip over
        if not ctx.violations:
            raise
        ctx.note("aborted_after_violations", "%s: %s" % (type(exc).__name__, exc))


def _run(ctx):
    from harness.replay import framing as rf
    h = rf.FramingHarness()
    h._fresh()          # fail fast when the driver cannot even complete a handshake over this read path
    t0 = time.time()
    phases = {}

    def phase(name):
        nonlocal t0
        phases[name] = round(phases.get(name, 0) + time.time() - t0, 1)
        t0 = time.time()
        ctx.note("phase_wall_s", dict(phases))
    replayed = 0
    diverged = 0
    feeds = 0
    graphs = []

    # ------------------------------------------------------------------ TLC, exhaustive, with state graphs
    if ctx.quick:
        models = [("1 frame, v1-v4, resp 0, push 28 on stream ids -1/-2/-128/-32768", _consts((1, 2, 3, 4), (0,), (28,), 1, 1, ALL_IDS)),
                  ("1-2 frames, v1-v4, resp 0/4, push 28", _consts((1, 2, 3, 4), (0, 4), (28,), 1, 2)),
                  ("3 frames, v2/v3, resp 4, push 28", _consts((2, 3), (4,), (28,), 3, 3))]
    else:
        models = [("1 frame, v1-v4, resp 0, push 28/30 on stream ids -1/-2/-128/-32768", _consts((1, 2, 3, 4), (0,), (28, 30), 1, 1, ALL_IDS)),
                  ("2 frames, v2/v3, resp 4, push 28 on stream ids -1/-2/-128/-32768", _consts((2, 3), (4,), (28,), 2, 2, ALL_IDS)),
                  ("1-2 frames, v1-v4, resp 0/4/8, push 28/30", _consts((1, 2, 3, 4), (0, 4, 8), (28, 30), 1, 2)),
                  ("3 frames, v1/v4, resp 0/4, push 28", _consts((1, 4), (0, 4), (28,), 3, 3)),
                  ("3 frames, v2/v3, resp 0/7, push 30", _consts((2, 3), (0, 7), (30,), 3, 3))]
    for n, (label, consts) in enumerate(models):
        cfg = tlc.write_cfg(os.path.join(ctx.scratch, "framing_%d.cfg" % n), constants=consts, invariants=INVARIANTS,
                            deadlock=False)
        res, nodes, edges, init = tlc.state_graph("Framing", cfg, ctx.scratch, coverage=True, timeout=1500, workers=4)
        ctx.add_tlc(res, "exhaustive " + label)
        if res.violation:
            _spec_violation(ctx, res, label)
            return
        cov = res.coverage()
        if not cov.get("Next") or cov["Next"][1] == 0:
            raise tlc.MachineryError("Read never taken in model %s: %s" % (label, cov))
        graphs.append((label, consts, nodes, edges, init))
    wconsts = _consts((2, 3), (0,), (28,), 1, 2, ALL_IDS)
    wcfg = tlc.write_cfg(os.path.join(ctx.scratch, "witness.cfg"), constants=wconsts, constraints=["WitnessScan"], deadlock=False)
    wres = tlc.check_model("Framing", wcfg, ctx.scratch, timeout=600, workers=1)
    reached = set(v[1] for v in wres.printed("WITNESS") if isinstance(v, tuple) and len(v) == 2)
    if reached != set(WITNESSES):
        raise tlc.MachineryError("vacuity witnesses not reachable: %s" % sorted(set(WITNESSES) - reached))
    ctx.note("vacuity_witnesses_reached", len(WITNESSES))
    phase("tlc_exhaustive")

    if not ctx.quick:
        big = _consts((1, 2, 3, 4), (0, 4), (28,), 3, 3)
        bcfg = tlc.write_cfg(os.path.join(ctx.scratch, "framing_big.cfg"), constants=big, invariants=INVARIANTS, deadlock=False)
        bres = tlc.check_model("Framing", bcfg, ctx.scratch, timeout=3000)
        ctx.add_tlc(bres, "exhaustive 3 frames, v1-v4, resp 0/4, push 28 (no graph)")
        if bres.violation:
            _spec_violation(ctx, bres, "3 frames v1-v4")
            return

    # ------------------------------------------------------------------ spec -> code: every edge of every graph
    total_edges = covered_edges = 0
    multi = 0
    selftest_done = False
    table = {}           # (frames key) -> {sent: projection}   (the state is a function of the position)
    for label, consts, nodes, edges, init in graphs:
        proj = {}

        def P(nid, nodes=nodes, proj=proj):
            p = proj.get(nid)
            if p is None:
                p = proj[nid] = rf.spec_projection(nodes[nid])
            return p
        for nid, st in nodes.items():
            key = tuple((f["ver"], f["neg"], f["blen"], f["sid"]) for f in st["frames"])
            t = table.setdefault(key, {})
            if st["sent"] in t and t[st["sent"]] != P(nid):
                raise tlc.MachineryError("spec state is not a function of the position for %s" % (key,))
            t[st["sent"]] = P(nid)
        eset = set((s, d) for s, d, _ in edges)
        total_edges += len(eset)
        walks = rf.cover_walks(edges, init, rank=lambda nid, nodes=nodes: nodes[nid]["sent"])
        seen = set()
        for w in walks:
            seen.update(zip(w, w[1:]))
            frames = _frames_of(nodes[w[0]])
            reads = [nodes[b]["sent"] - nodes[a]["sent"] for a, b in zip(w, w[1:])]
            expected = [P(b) for b in w[1:]]
            if any(len(b["order"]) - len(a["order"]) >= 2 for a, b in zip([P(w[0])] + expected, expected)):
                multi += 1
            if not selftest_done and len(reads) >= 2:
                # binding self-test: a flipped expectation must be noticed
                bad = copy.deepcopy(expected)
                bad[-1]["buflen"] += 1
                bad2 = copy.deepcopy(expected)
                bad2[-1]["order"] = bad2[-1]["order"][:-1]
                if not rf.replay_reads(h, frames, reads, bad) or not rf.replay_reads(h, frames, reads, bad2):
                    raise tlc.MachineryError("binding self-test failed: altered expectation not noticed by replay")
                selftest_done = True
            d = rf.replay_reads(h, frames, reads, expected)
            replayed += 1
            feeds += len(reads)
            if len(frames) >= 2 and any(1 <= x <= 2 for x in reads):
                ctx.nontrivial((tuple((f["ver"], f["neg"], f["blen"], f["sid"]) for f in frames), tuple(reads)))
            if replayed % 20000 == 1:
                ctx.sample({"direction": "spec->code", "frames": frames, "reads": reads,
                            "final": {k: v for k, v in expected[-1].items() if k in ("sent", "order", "buflen")}})
            if d:
                diverged += 1
                _report(ctx, frames, reads, d, "spec->code")
                if ctx.violations >= 25:
                    break
        covered_edges += len(seen & eset)
        if ctx.violations >= 25:
            break
    ctx.note("graph_edges", total_edges)
    ctx.note("graph_edges_replayed", covered_edges)
    ctx.note("exhaustive", covered_edges == total_edges)
    ctx.note("walks_with_multi_frame_read", multi)
    if multi == 0 and not ctx.violations:
        raise tlc.MachineryError("no read delivering two frames at once in the replayed walks")
    ctx.note("behaviours_replayed_graph", replayed)
    phase("replay_graph")

    # ------------------------------------------------------------------ spec -> code: all 2^(L-1) splits of short sequences
    max_l = 13 if ctx.quick else 14
    pair_budget = 1 if ctx.quick else 6
    all_split_seqs = 0
    all_split_paths = 0
    pairs_done = 0
    for key in sorted(table):
        t = table[key]
        L = max(t)
        short = L <= max_l
        pair = (len(key) == 2 and all(k[2] == 0 and not k[1] for k in key) and key[0][0] != key[1][0]
                and {wire_hdr(key[0][0]), wire_hdr(key[1][0])} == {8, 9})
        if not short:
            if not pair or pairs_done >= pair_budget:
                continue
            pairs_done += 1
        frames = [{"ver": v, "neg": n, "blen": b, "sid": i} for v, n, b, i in key]
        all_split_seqs += 1
        for cuts in itertools.product((0, 1), repeat=L - 1):
            reads = []
            last = 0
            for p, c in enumerate(cuts, start=1):
                if c:
                    reads.append(p - last)
                    last = p
            reads.append(L - last)
            pos = list(itertools.accumulate(reads))
            d = rf.replay_reads(h, frames, reads, [t[p] for p in pos])
            all_split_paths += 1
            feeds += len(reads)
            if d:
                diverged += 1
                _report(ctx, frames, reads, d, "spec->code(all splits)")
                break
        if ctx.violations >= 25:
            break
    replayed += all_split_paths
    ctx.note("all_splits_sequences", all_split_seqs)
    ctx.note("all_splits_paths", all_split_paths)
    phase("replay_all_splits")

    # ------------------------------------------------------------------ thorough: simulated behaviours with 4 frames / long bodies
    if not ctx.quick and ctx.violations < 25:
        sc = _consts((2, 3), (0, 8, 300), (28,), 4, 4)
        scfg = tlc.write_cfg(os.path.join(ctx.scratch, "framing_sim.cfg"), constants=sc, invariants=INVARIANTS, deadlock=False)
        sres, behs = tlc.simulate("Framing", scfg, ctx.scratch, num=1500, depth=12, seed=ctx.seed, timeout=900)
        if sres.violation:
            _spec_violation(ctx, sres, "simulation 4 frames")
            return
        nb = 0
        for b in behs:
            if len(b) < 2:
                continue
            frames = _frames_of(b[0])
            reads = [y["sent"] - x["sent"] for x, y in zip(b, b[1:])]
            d = rf.replay_reads(h, frames, reads, [rf.spec_projection(s) for s in b[1:]])
            nb += 1
            feeds += len(reads)
            if d:
                diverged += 1
                _report(ctx, frames, reads, d, "spec->code(simulated)")
        replayed += nb
        ctx.note("simulated_behaviours_replayed", nb)
        if nb == 0:
            raise tlc.MachineryError("TLC -simulate produced no behaviour")
    phase("tlc_big_and_simulation")
    ctx.traces_validated += replayed - diverged
    ctx.note("behaviours_replayed", replayed)
    ctx.note("behaviours_diverged", diverged)
    ctx.note("reads_replayed", feeds)
    ctx.note("connections_opened", h.opened)

    # ------------------------------------------------------------------ code -> spec: recorded runs validated by TLC
    n_tr = 200 if ctx.quick else 2500
    max_frames = 5 if ctx.quick else 6
    pos_lens = [0, 4, 7, 8, 60, 300] + ([] if ctx.quick else [1500])
    neg_lens = [28, 30, 36, 40]
    traces = []
    for i in range(n_tr):
        frames = rf.random_frames(ctx.rng, max_frames, [1, 2, 3, 4], pos_lens, neg_lens)
        total = sum((8 if f["ver"] <= 2 else 9) + f["blen"] for f in frames)
        traces.append(rf.record(h, frames, rf.random_chunking(ctx.rng, total)))
    good = len(traces)
    victim = next((t for t in traces if len(t) >= 5), None)
    if victim is None:
        victim = rf.record(h, [{"ver": 4, "neg": False, "blen": 4, "sid": 0}], [3, 3, 3, 2, 2])
    bad1 = copy.deepcopy(victim)
    bad1[3]["post"]["buflen"] += 1
    bad2 = copy.deepcopy(victim)
    del bad2[2]
    traces += [bad1, bad2]
    tconsts = _consts((1, 2, 3, 4), (0,), (28,), 1, 1)
    tcfg = tlc.write_cfg(os.path.join(ctx.scratch, "trace.cfg"), init="TraceInit", next="TraceNext", constants=tconsts,
                         invariants=INVARIANTS, constraints=["Progress"], postcondition="Done", deadlock=False)
    tres, prog = tlc.validate_traces("Trace_Framing", tcfg, traces, ctx.scratch, timeout=1800)
    ctx.add_tlc(tres, "trace validation")
    phase("trace_validation")
    if tres.violation:
        ctx.violation("invariant %s violated in a state of a recorded execution" % tres.invariant,
                      replay={"kind": "spec", "trace": [dict(s) for _, s in tres.trace()][-3:]},
                      signature="trace-inv:%s" % tres.invariant)
        return
    if prog[good] != 4 or prog[good + 1] > len(bad2):
        raise tlc.MachineryError("binding self-test failed: corrupted/dropped trace accepted (%s, %s)" % (prog[good], prog[good + 1]))
    ctx.note("binding_selftest", {"flipped_expectation_noticed": 2, "corrupted_trace_rejected": 1, "dropped_event_rejected": 1})
    accepted = 0
    for i in range(good):
        t = traces[i]
        if prog[i] == len(t) + 1:
            accepted += 1
            if len(t[0]["frames"]) >= 2:
                ctx.nontrivial(("trace", i, len(t)))
            continue
        ev = t[max(prog[i], 2) - 1]
        reads = [e["k"] for e in t[1:max(prog[i], 2)]]
        ctx.violation("recorded execution rejected by Framing.tla at event %d (Read %s): post-state %s" % (
            prog[i], ev.get("k"), ev.get("post")),
            replay={"kind": "reads", "frames": t[0]["frames"], "reads": reads}, signature="trace:Read")
    ctx.sample({"direction": "code->spec", "frames": traces[0][0]["frames"], "reads": [e["k"] for e in traces[0][1:]][:20]})
    ctx.traces_validated += accepted
    ctx.note("traces_recorded", good)
    ctx.note("traces_accepted", accepted)
    ctx.evaluations = replayed + good
    # observation, not judged (C09's subject): stream ids given back to the pool must be request ids, never a push's
    try:
        ctx.note("observation_negative_ids_in_request_ids", sum(1 for i in h.conn.request_ids if i < 0))
    except Exception:
        pass
    ctx.assumptions += [
        "the read handler is atomic with respect to other loop-thread callbacks (one reactor thread)",
        "harness/wire.py encodes frames as the native protocol documents say; response bodies are READY / RESULT / ERROR, "
        "pushes are EVENT status/topology changes",
        "exhaustive scope: <=3 frames per sequence; longer sequences and bodies only through recorded random runs",
    ]


def wire_hdr(ver):
    return 8 if ver <= 2 else 9


def replay(ctx, obj):
    """Re-execute a replay file: feed the reads into a fresh real connection and print the projection."""
    from harness.replay import framing as rf
    if obj.get("kind") == "handshake":
        rf.open_connection(4)
        print("handshake completed")
        return
    if obj.get("kind") != "reads":
        for s in obj.get("trace", []):
            print(s)
        return
    h = rf.FramingHarness()
    h.start(obj["frames"])
    print("frames:", obj["frames"])
    for k in obj["reads"]:
        h.read(k)
        print("Read(%d) ->" % k, h.project(), h.error or "")
    if obj.get("divergence"):
        print("expected (spec):", {k: v["spec"] for k, v in obj["divergence"]["diff"].items()})
