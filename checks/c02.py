"""C02 - value encodings are byte-exact with Cassandra's type serializers (bounded scope, see level_note).

Spec: spec/Codec.tla - reference encoder Enc(type, value, pv), reference decoder Dec, normalisation Norm, written from
      Cassandra's serializer definitions and the native protocol documents.
TLC : enumerates type trees (scalars, list/set/map/tuple/UDT/vector, nesting to depth 3) x per-type boundary alphabets
      x protocol versions {2, 3, 4, 5} as states; invariants on the specification itself: the specification-level
      decoder reads every encoding of Cassandra's image back as Norm(value) (RoundTrip) consuming exactly the bytes there
      are (LengthConsistent), varints are minimal (VarintMinimal), vints canonical (VintCanonical), fixed widths, the
      collection header width follows the version (WidthRule).
Bind: every state is evaluated on the real code: cassandra.cqltypes.lookup_casstype(<marshal class string>) builds the
      type; to_binary(python value, pv) must be exactly Enc (for every accepted input form); from_binary(e, pv) must be
      the object Norm denotes for every e in the image (incl. UDT values with trailing fields absent, null / empty
      cells); an out-of-range tinyint / smallint / int / date / bigint - alone or inside a composite - must raise.
"""
from harness import tlc
from harness.replay import codec

SCOPE = ("BOUNDED: structure (the composite grammar, null / empty / absent positions, 16- vs 32-bit length prefixes, "
         "fixed- vs variable-width vector elements) and boundary values. Most numbers stay within 32 bits (64-bit fields "
         "carry sign-extended 32-bit values, vints reach 5 bytes). The INTEGER family goes beyond: varint, decimal "
         "(unscaled) and bigint are also enumerated on byte-wise defined wide integers at every byte-length boundary up "
         "to 72 bits (magnitudes 2^(8k-1)-1, 2^(8k-1), 2^(8k-1)+1 for k = 1..9, both signs, plus some byte patterns; "
         "bigint's int64 range limits included) - at those boundaries only, not arbitrary wide values. Wide vints "
         "(durations beyond 2^30), float/double bit patterns, the textual forms of uuid and of inet (except the RFC 4291 mixed notation "
         "x:x:x:x:x:x:d.d.d.d and its '::' forms, which Codec.tla writes and reads back for IPv4-mapped / -compatible / "
         "NAT64 / documentation-prefix addresses; every other inet text is the platform's inet_ntop), UTF-8 validation and "
         "calendar arithmetic over large ranges are outside what this TLA+ specification can decide and are not covered "
         "(timestamps given as a wall-clock reading with a UTC offset are covered for readings within a day of the epoch).")

META = {
    "property_id": "C02",
    "engine": "Codec",
    "technique": "TLA+ reference encoder/decoder of the CQL value wire grammar; TLC enumerates type trees x boundary "
                 "values x protocol versions and checks a spec-level decode round trip; every enumerated case is encoded "
                 "and decoded by the real cqltypes classes and compared byte for byte / object for object",
    "level": "model_checking",
    "level_text": "TLC exhaustively enumerates the configured type trees (18 scalar types; lists, sets, maps, tuples, UDTs, "
                  "vectors over them; nesting to depth 3) x per-type boundary alphabets (every two's complement byte "
                  "boundary up to 2^31 and its neighbours - and, for varint / decimal / bigint, byte-wise defined wide "
                  "integers at every byte-length boundary up to 72 bits - every vint length boundary, 1-4 byte UTF-8 sequences) x "
                  "protocol versions {2,3,4,5}; on the specification it checks that an independent decoder reads every "
                  "encoding back as the normalised value with consistent length prefixes, minimal varints and canonical "
                  "vints; each case is then run through the real to_binary / from_binary and must agree exactly, and "
                  "every out-of-range number must be refused. Exhaustive over the enumerated space.",
    "level_note": SCOPE + " Trusted: TLC; the transcription of Cassandra's serializers (BigInteger.toByteArray, "
                  "VIntCoding, CollectionSerializer, TupleType, VectorType) into Codec.tla; tinyint/smallint/date/time as "
                  "vector elements are left out (their fixed/variable status differs between Cassandra releases); "
                  "vectors only on v3+; the bytes written for a null element inside a list/set/map are recorded, not judged (no unique "
                  "reference: Cassandra refuses them on write); the harness's mapping of abstract values to Python objects (harness/replay/codec.py).",
    "design_ref": "5.7 C01 / C02",
}


def run(ctx):
    drv = codec.Driver.pure()
    runs = codec.enumerate_cases(ctx, tlc)
    if runs is None:
        return
    groups = {}
    cases = []
    open_outcomes = {}
    for label, states in runs:
        for st in states:
            cases.append(st)
            ctx.evaluations += 1
            devs = []
            if st["expect"] in ("ok", "raise"):
                devs += codec.judge_encode(drv, st)
                if st["expect"] == "ok" and "null-collection-element" in codec.features(st["ty"], st["val"]):
                    oc = codec.encode_null_element_outcome(drv, st)
                    open_outcomes[oc] = open_outcomes.get(oc, 0) + 1
            if st["expect"] != "raise":
                devs += codec.judge_decode(drv, st)
            ctx.traces_validated += 1
            if codec.nontrivial(st):
                ctx.nontrivial(codec.case_id(st))
            if ctx.evaluations % 3001 == 1:
                ctx.sample(codec.describe(st))
            for sig, msg, detail in devs:
                groups.setdefault(sig, []).append((st, msg, detail))
    fam, feats = codec.census(cases)
    ctx.note("exhaustive", True)
    ctx.note("cases_per_family", fam)
    ctx.note("structural_features", feats)
    ctx.note("null_collection_element_encoding_recorded_not_judged", open_outcomes)
    ctx.note("rule", "one case = one TLC state (type tree, protocol version, abstract value | out-of-range number | "
                     "null/empty cell); distinct by the whole case; non-trivial = a composite with at least one element, "
                     "a scalar whose encoding has more than one byte, or an expectation other than a plain encoding")
    for need in ("null-field", "null-collection-element", "empty-collection", "aware-timestamp", "length-boundary:vecsize", "v2-unsigned-short-above-32767", "inet-mixed-text", "inet-canonical-text-with-dotted-quad", "wide-integer-64bit-and-beyond", "decimal-scale-int32-limit", "short-udt-encodings",
                 "v2-16bit-collection", "depth-2", "depth-3"):
        if not feats.get(need):
            raise tlc.MachineryError("vacuity: no case with feature %s" % need)
    for k in ("scalar", "list", "set", "map", "tuple", "udt", "vector"):
        if not fam.get(k, {}).get("ok"):
            raise tlc.MachineryError("vacuity: no case for family %s" % k)
    if not any(f["raise"] for f in fam.values()):
        raise tlc.MachineryError("vacuity: no out-of-range case")
    codec.check_witnesses(ctx, tlc)

    # binding self-test: a corrupted expectation must change the judgement, in both halves; so must a demanded refusal
    # (judged as "the verdict changes", so that it also works when the driver under test is itself broken)
    probe = next(s for s in cases if s["expect"] == "ok" and s["ty"] == ["list", ["varint"]] and len(s["val"]) == 2 and all(s["val"]))
    bad = dict(probe)
    bad["enc"] = probe["enc"][:-1] + [(probe["enc"][-1] + 1) % 256]
    bad2 = dict(probe)
    bad2["norm"] = list(reversed(probe["norm"])) if probe["norm"][0] != probe["norm"][1] else [probe["norm"][0]]
    flipped = dict(probe)
    flipped["expect"] = "raise"
    V = codec.verdict
    if V(codec.judge_encode(drv, bad)) == V(codec.judge_encode(drv, probe)) or \
            V(codec.judge_decode(drv, bad2)) == V(codec.judge_decode(drv, probe)) or \
            V(codec.judge_encode(drv, flipped)) == V(codec.judge_encode(drv, probe)):
        raise tlc.MachineryError("binding self-test failed: corrupted expectation not detected")
    ctx.note("binding_selftest", {"corrupted_rejected": 3})

    for sig in sorted(groups):
        members = groups[sig]
        st, msg, detail = min(members, key=lambda m: (len(m[0]["enc"]), codec.depth(m[0]["ty"]), m[0]["pv"], codec.case_id(m[0])))
        pvs = sorted({m[0]["pv"] for m in members})
        ctx.violation("%s; %d cases on pv %s; smallest: %s value=%s pv=%s %s"
                      % (msg, len(members), pvs, codec.cql_name(st["ty"]), st.get("big") or st["val"], st["pv"], detail),
                      replay={"state": st, "half": sig.split(":")[0], "cases": len(members), "versions": pvs},
                      signature=sig)
    ctx.assumptions += [SCOPE, "map / set entries may be written by a client in any order; Cassandra sorts on its side",
                        "an out-of-range number may be refused with any exception"]


def replay(ctx, obj):
    drv = codec.Driver.pure()
    st = obj["state"]
    print("case: %s" % codec.describe(st))
    devs = []
    if st["expect"] in ("ok", "raise"):
        devs += codec.judge_encode(drv, st)
    if st["expect"] != "raise":
        devs += codec.judge_decode(drv, st)
    for sig, msg, detail in devs:
        print("  %s: %s %s" % (sig, msg, detail))
    if devs:
        ctx.violation("replayed: still deviates: %s" % [d[0] for d in devs], replay=obj)
    else:
        print("  no deviation")
