#!/bin/bash
# usage: tools/seed_confirm.sh <seed_dir> <demo file name>
# Confirms a seeded change in a scratch worktree: applies, baseline tests still pass, demo fails with it and passes without.
set -u
seed="$1"; demo="$2"
wt=$(mktemp -d /var/tmp/seedwt.XXXXXX); rmdir "$wt"
git -C /repo worktree add -q "$wt" HEAD || exit 2
( cd "$wt" && git apply "$seed/patch.diff" ) || { echo "APPLY FAILED"; git -C /repo worktree remove --force "$wt"; exit 2; }
echo "tests with change: $(/verif/tools/baseline.sh "$wt")"
( cd "$wt" && timeout 600 /venv/bin/python "$seed/$demo" "$wt" >/dev/null 2>&1 ); echo "demo with change rc=$? (expect non-zero)"
( cd "$wt" && git checkout -q -- . )
( cd "$wt" && timeout 600 /venv/bin/python "$seed/$demo" "$wt" >/dev/null 2>&1 ); echo "demo without change rc=$? (expect 0)"
git -C /repo worktree remove --force "$wt"
