#!/bin/bash
# usage: tools/run_par.sh quick|thorough N [ids...]  - run checks N at a time; one summary line each (sorted at the end)
tier="${1:-quick}"; n="${2:-3}"; shift 2
cd "$(dirname "$0")/.."
ids="$@"
[ -z "$ids" ] && ids=$(python3 -c "import json; print(' '.join(c['property_id'] for c in json.load(open('MANIFEST.json'))['checks']))")
one() {
  id=$1; tier=$2
  t0=$(date +%s)
  out=$(timeout 5400 ./check "$id" --tier "$tier" 2>&1); rc=$?
  t1=$(date +%s)
  echo "== $id tier=$tier rc=$rc wall=$((t1-t0))s :: $(echo "$out" | grep -E 'OK property|VIOLATION|MACHINERY' | head -1 | cut -c1-160)$(echo "$out" | grep -c KNOWN-FINDING | sed 's/^0$//; s/^\([0-9][0-9]*\)$/ [known findings: \1]/')"
}
export -f one
echo $ids | tr ' ' '\n' | xargs -P "$n" -I{} bash -c "one {} $tier" | sort
