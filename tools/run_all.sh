#!/bin/bash
# usage: tools/run_all.sh quick|thorough [ids...]  - run checks sequentially, one summary line each
tier="${1:-quick}"; shift
cd "$(dirname "$0")/.."
ids="$@"
[ -z "$ids" ] && ids=$(python3 -c "import json; print(' '.join(c['property_id'] for c in json.load(open('MANIFEST.json'))['checks']))")
for id in $ids; do
  t0=$(date +%s)
  out=$(timeout 3600 ./check "$id" --tier "$tier" 2>&1); rc=$?
  t1=$(date +%s)
  echo "== $id tier=$tier rc=$rc wall=$((t1-t0))s :: $(echo "$out" | grep -E 'OK property|VIOLATION|MACHINERY' | head -1 | cut -c1-160)"
  echo "$out" | grep -E "KNOWN-FINDING" | cut -c1-120
done
