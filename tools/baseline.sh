#!/bin/sh
# Run the repository's pinned baseline (guard off) and print the summary line.
cd "${1:-/repo}" && /venv/bin/python -m pytest -ra -q -p no:cacheprovider --timeout=900 --continue-on-collection-errors 2>&1 | tail -1
