#!/venv/bin/python
"""Regenerate /verif/MANIFEST.json from checks/*.py META blocks + tools/not_applicable.json."""
import glob
import importlib
import json
import os
import sys

VERIF = os.path.dirname(os.path.dirname(os.path.abspath(__file__)))
sys.path.insert(0, VERIF)
sys.dont_write_bytecode = True


def main():
    props = [json.loads(l)["id"] for l in open(os.path.join(VERIF, "properties.jsonl"))]
    with open(os.path.join(VERIF, "tools", "not_applicable.json")) as f:
        na = json.load(f)
    with open(os.path.join(VERIF, "tools", "claimed.json")) as f:
        accepted = set(json.load(f))          # checks reviewed and accepted by the lead
    checks = []
    engines = {}
    claimed = set()
    for path in sorted(glob.glob(os.path.join(VERIF, "checks", "c[0-9]*.py"))):
        name = os.path.basename(path)[:-3]
        mod = importlib.import_module("checks." + name)
        m = mod.META
        pid = m["property_id"]
        if m.get("disabled") or pid not in accepted:
            continue
        claimed.add(pid)
        checks.append({
            "property_id": pid,
            "quick_cmd": "./check %s --tier quick" % pid,
            "thorough_cmd": "./check %s --tier thorough" % pid,
            "evidence_file": "evidence/%s.json" % pid,
            "replay_cmd_template": "./check %s --replay {path}" % pid,
            "engine": m["engine"],
            "level_claimed": {"category": m.get("level", "model_checking"), "text": m["level_text"],
                              "design_ref": m.get("design_ref", "")},
            "level_note": m["level_note"],
            "technique": m["technique"],
        })
        e = engines.setdefault(m["engine"], {"name": m["engine"], "path": "spec/%s.tla" % m["engine"],
                                             "serves_properties": [],
                                             "kind_free_text": "TLA+ specification checked with TLC; bound to the code by replay / trace validation (harness/)"})
        e["serves_properties"].append(pid)
    na_list = []
    for pid in props:
        if pid in claimed:
            continue
        reason = na.get(pid) or "check not built yet in this round (planned in DESIGN.md section 5); not claimed"
        na_list.append({"property_id": pid, "reason": reason})
    manifest = {
        "version": 1,
        "setup_cmd": "./setup.sh",
        "hooks": {
            "guard": "CASSANDRA_DRIVER_VERIF",
            "enable": "none needed: the harness imports /repo/cassandra (pure Python) from the working tree and observes it through subclassing / injection; the guard name is reserved",
            "baseline_off_cmd": "cd /repo && /venv/bin/python -m pytest -ra -q -p no:cacheprovider --timeout=900 --continue-on-collection-errors",
            "source_commits": [],
            "add_only": True,
        },
        "engines": sorted(engines.values(), key=lambda e: e["name"]),
        "checks": checks,
        "notes": "All checks: ./check <ID> --tier quick|thorough (exit 0 ok / 1 VIOLATION / 2 machinery failure). "
                 "Known findings: known_findings.json. See DESIGN.md.",
        "not_applicable": na_list,
    }
    out = os.path.join(VERIF, "MANIFEST.json")
    with open(out + ".tmp", "w") as f:
        json.dump(manifest, f, indent=1)
    os.replace(out + ".tmp", out)
    print("MANIFEST.json: %d checks, %d not applicable / not claimed" % (len(checks), len(na_list)))


if __name__ == "__main__":
    main()
