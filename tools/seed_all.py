#!/venv/bin/python
"""Re-run every stored seeded change (seeded/<id>/patch.diff) against the current checks.

For each seed: copy /repo/cassandra, apply the patch to the copy, run ./check <property> (quick; thorough when quick
misses) with VERIF_REPO pointing at the copy and the evidence redirected, and record what happened in
seeded/RESULTS.json (+ lead_verification.status_now / detected_by in the seed's meta.json).  /repo is never touched.

usage: tools/seed_all.py [-j N] [--thorough-on-miss] [--benign | --neutral] [seed-dir-name ...]
With --benign the directory is benign/ (behaviour-preserving refactorings): a check that exits non-zero is a FALSE ALARM.
"""
import concurrent.futures as cf
import json
import os
import re
import shutil
import subprocess
import sys
import tempfile
import time

VERIF = os.path.dirname(os.path.dirname(os.path.abspath(__file__)))
# --benign: behaviour-preserving refactorings (benign/<id>/); --neutral: behaviour changes the property leaves open
# (neutral/<id>/).  In both modes every check must stay quiet: a non-zero exit is a FALSE ALARM.
QUIET_DIR = next((a[2:] for a in sys.argv if a in ("--benign", "--neutral")), None)
BENIGN = QUIET_DIR is not None
if BENIGN:
    sys.argv.remove("--" + QUIET_DIR)
SEEDED = os.path.join(VERIF, QUIET_DIR or "seeded")


def run_seed(name, thorough_on_miss):
    d = os.path.join(SEEDED, name)
    meta = json.load(open(os.path.join(d, "meta.json")))
    prop = meta["property"]
    extra = [re.sub(r"\s.*", "", x) for x in meta.get("lead_verification", {}).get("detected_by", [])]
    ids = [prop] + [x for x in extra if x != prop and re.fullmatch(r"C\d\d", x)]
    if name == "C45":
        ids = ["C45", "C12"]
    tmp = tempfile.mkdtemp(prefix="seedrun.", dir="/var/tmp")
    out = {"seed": name, "property": prop, "runs": []}
    try:
        os.makedirs(os.path.join(tmp, "repo"))
        shutil.copytree("/repo/cassandra", os.path.join(tmp, "repo", "cassandra"))
        p = subprocess.run(["patch", "-p1", "-s", "-i", os.path.join(d, "patch.diff")], cwd=os.path.join(tmp, "repo"),
                           capture_output=True, text=True)
        if p.returncode != 0:
            out["applies"] = False
            out["patch_error"] = (p.stdout + p.stderr)[-300:]
            return out
        out["applies"] = True
        env = dict(os.environ, VERIF_REPO=os.path.join(tmp, "repo"), VERIF_EVIDENCE_DIR=os.path.join(tmp, "evidence"))
        tiers = ["quick"] + (["thorough"] if thorough_on_miss else [])
        for tier in tiers:
            caught = False
            for cid in ids:
                t0 = time.time()
                try:
                    r = subprocess.run(["./check", cid, "--tier", tier], cwd=VERIF, env=env, capture_output=True, text=True,
                                       timeout=1500 if tier == "quick" else 5400)
                    rc, text = r.returncode, r.stdout + r.stderr
                except subprocess.TimeoutExpired:
                    rc, text = 124, "TIMEOUT"
                vio = [l for l in text.splitlines() if l.startswith("VIOLATION")]
                what = ""
                m = re.search(r"VIOLATION[^\n]*\n([^\n]*)", text)
                if m:
                    what = m.group(1)[:300]
                out["runs"].append({"check": cid, "tier": tier, "rc": rc, "violations": len(vio), "first": what,
                                    "wall": round(time.time() - t0, 1),
                                    "tail": text.strip().splitlines()[-1][:200] if rc not in (0, 1) and text.strip() else ""})
                if (rc == 1 and vio) or (BENIGN and rc != 0):
                    caught = True
            if caught:
                break
        return out
    finally:
        shutil.rmtree(tmp, ignore_errors=True)


def main():
    args = sys.argv[1:]
    jobs = 4
    thorough = False
    names = []
    while args:
        a = args.pop(0)
        if a == "-j":
            jobs = int(args.pop(0))
        elif a == "--thorough-on-miss":
            thorough = True
        else:
            names.append(a)
    if not names:
        names = sorted(n for n in os.listdir(SEEDED) if os.path.exists(os.path.join(SEEDED, n, "patch.diff")))
    res_path = os.path.join(SEEDED, "RESULTS.json")
    results = json.load(open(res_path)) if os.path.exists(res_path) else {}
    with cf.ThreadPoolExecutor(jobs) as ex:
        futs = {ex.submit(run_seed, n, thorough): n for n in names}
        for f in cf.as_completed(futs):
            r = f.result()
            n = r["seed"]
            caught = sorted({"%s%s" % (x["check"], "" if x["tier"] == "quick" else " (thorough)")
                             for x in r["runs"] if (x["rc"] == 1 and x["violations"]) or (BENIGN and x["rc"] != 0)})
            r["caught_by"] = caught
            r["when"] = time.strftime("%Y-%m-%dT%H:%M:%S")
            r["repo_head"] = subprocess.check_output(["git", "-C", "/repo", "log", "--format=%h", "-1"], text=True).strip()
            if os.path.exists(res_path):        # several invocations may run side by side: merge, do not overwrite
                try:
                    results = json.load(open(res_path))
                except ValueError:
                    pass
            results[n] = r
            print("%-8s %s %s" % (n, "applies" if r.get("applies") else "PATCH-FAILS",
                                  caught or [(x["check"], x["tier"], x["rc"]) for x in r["runs"]]), flush=True)
            json.dump(results, open(res_path, "w"), indent=1, sort_keys=True)
            mp = os.path.join(SEEDED, n, "meta.json")
            meta = json.load(open(mp))
            lv = meta.setdefault("lead_verification", {})
            if r.get("applies"):
                lv["detected_by"] = caught
                first = next((x["first"] for x in r["runs"] if x["rc"] == 1 and x["violations"]), "")
                if BENIGN:
                    lv["status_last_run"] = ("FALSE ALARM (%s): %s" % (r["when"], [(x["check"], x["tier"], x["rc"], x["first"] or x["tail"]) for x in r["runs"] if x["rc"]])
                                             if caught else "quiet (%s): %s" % (r["when"], [(x["check"], x["tier"]) for x in r["runs"]]))
                elif caught:
                    lv.setdefault("status_at_first_run", "caught")
                    lv.setdefault("checks_run", "tools/seed_all.py %s" % n)
                    lv["status_last_run"] = "caught (%s): %s" % (r["when"], first)
                else:
                    lv.setdefault("status_at_first_run", "missed")
                    lv.setdefault("checks_run", "tools/seed_all.py %s" % n)
                    lv["status_last_run"] = "MISSED (%s): %s" % (r["when"], [(x["check"], x["tier"], x["rc"]) for x in r["runs"]])
            else:
                lv["status_last_run"] = "patch no longer applies to /repo at %s (the lines were changed by a later fix: commit)" % r["repo_head"]
            json.dump(meta, open(mp, "w"), indent=1)


if __name__ == "__main__":
    main()
