#!/bin/bash
# usage: tools/seed_run.sh <seed_dir> <check id>...   - run checks against a patched COPY of /repo/cassandra
# (same as `git -C /repo apply patch; ./check ...; git -C /repo checkout -- .` but does not disturb /repo)
set -u
seed="$1"; shift
tmp=$(mktemp -d /var/tmp/seedrun.XXXXXX)
mkdir -p "$tmp/repo"
cp -r /repo/cassandra "$tmp/repo/"
( cd "$tmp/repo" && git init -q . >/dev/null 2>&1; patch -p1 -s < "$seed/patch.diff" ) || { echo "PATCH FAILED"; rm -rf "$tmp"; exit 2; }
for id in "$@"; do
  out=$(cd /verif && VERIF_EVIDENCE_DIR="$tmp/evidence" VERIF_REPO="$tmp/repo" timeout 1200 ./check "$id" --tier "${TIER:-quick}" 2>&1)
  rc=$?
  echo "== $id rc=$rc: $(echo "$out" | grep -m1 -E 'VIOLATION|OK property|MACHINERY|KNOWN' | cut -c1-200)"
  echo "$out" | grep -A1 -m1 VIOLATION | tail -1 | cut -c1-300
done
rm -rf "$tmp"
