#!/bin/bash
# usage: tools/review.sh C18 C19 ...   - run quick tier, validate evidence against the schema, print summary
cd /verif
for id in "$@"; do
  t0=$(date +%s)
  out=$(timeout 1800 ./check "$id" --tier "${TIER:-quick}" 2>&1); rc=$?
  t1=$(date +%s)
  v=$(python3-vt -c "
import json,jsonschema,sys
try:
    e=json.load(open('/verif/evidence/$id.json')); jsonschema.validate(e, json.load(open('/root/.vp/EVIDENCE.schema.json')))
    c=e['coverage']; print('evidence ok tier=%s states=%s trans=%s conf=%s nontrivial=%s samples=%d' % (e['tier'], c.get('states'), c.get('transitions'), c.get('traces_validated_against_impl'), c.get('distinct_nontrivial'), len(c.get('samples',[]))))
except Exception as ex: print('EVIDENCE INVALID', str(ex)[:200])
")
  echo "== $id rc=$rc wall=$((t1-t0))s :: $v"
  echo "$out" | grep -E "VIOLATION|KNOWN-FINDING|MACHINERY" | head -5 | cut -c1-220
done
