#!/venv/bin/python
"""Regenerate the auto-generated parts of DESIGN.md (between BEGIN/END markers) from
known_findings.json, seeded/*/meta.json and checks/*.py META."""
import glob
import importlib
import json
import os
import re
import sys

VERIF = os.path.dirname(os.path.dirname(os.path.abspath(__file__)))
sys.path.insert(0, VERIF)
sys.dont_write_bytecode = True


def block(name, text, doc):
    b, e = "<!-- BEGIN %s -->" % name, "<!-- END %s -->" % name
    body = "%s\n%s\n%s" % (b, text.rstrip(), e)
    if b in doc:
        return re.sub(re.escape(b) + r".*?" + re.escape(e), lambda m: body, doc, flags=re.S)
    return doc.rstrip() + "\n\n" + body + "\n"


def main():
    k = json.load(open(os.path.join(VERIF, "known_findings.json")))
    lines = ["| property | signature | what fails | why recorded, not repaired |", "|---|---|---|---|"]
    for f in k["findings"]:
        lines.append("| %s | `%s` | %s | %s |" % (f["property"], f["signature"], f["what"].replace("|", "\\|"),
                                                   f.get("why_not_fixed", "").replace("|", "\\|")))
    findings = "\n".join(lines)
    lines = ["| property | /repo commit | what failed |", "|---|---|---|"]
    for s in k["fixed"]:
        m = re.match(r"fixed: property=(\S+) (\S+) (.*)", s)
        lines.append("| %s | %s | %s |" % (m.group(1), m.group(2), m.group(3).replace("|", "\\|")))
    fixed = "\n".join(lines)
    lines = ["| seed | change | needs | first run | caught by (last run of tools/seed_all.py) | note / last run |", "|---|---|---|---|---|---|"]
    for p in sorted(glob.glob(os.path.join(VERIF, "seeded", "*", "meta.json"))):
        m = json.load(open(p))
        lv = m.get("lead_verification", {})
        sid = os.path.basename(os.path.dirname(p))
        lines.append("| %s | %s | %s | %s | %s | %s |" % (
            sid, str(m.get("summary", "")).replace("|", "\\|")[:300], str(m.get("needs", "")).replace("|", "\\|")[:300],
            lv.get("status_at_first_run", ""), ", ".join(lv.get("detected_by", [])) or "-",
            ((lv.get("status_now") or lv.get("note") or "") + " // " + lv.get("status_last_run", "")).replace("|", "\\|")[:420]))
    seeds = "\n".join(lines)
    lines = ["| id | behaviour-preserving change | checks run | result |", "|---|---|---|---|"]
    for p in sorted(glob.glob(os.path.join(VERIF, "benign", "*", "meta.json"))):
        m = json.load(open(p))
        lv = m.get("lead_verification", {})
        lines.append("| %s | %s | %s | %s |" % (os.path.basename(os.path.dirname(p)), str(m.get("summary", "")).replace("|", "\\|")[:300],
                                           m.get("property"), lv.get("status_last_run", "not run").replace("|", "\\|")[:200]))
    benign = "\n".join(lines)
    lines = ["| id | property-neutral behaviour change | why the property still holds | result |", "|---|---|---|---|"]
    for p in sorted(glob.glob(os.path.join(VERIF, "neutral", "*", "meta.json"))):
        m = json.load(open(p))
        lv = m.get("lead_verification", {})
        lines.append("| %s | %s | %s | %s |" % (os.path.basename(os.path.dirname(p)), str(m.get("summary", "")).replace("|", "\\|")[:300],
                                           str(m.get("why_property_holds", "")).replace("|", "\\|").replace("\n", " ")[:300],
                                           lv.get("status_last_run", "not run").replace("|", "\\|")[:200]))
    neutral = "\n".join(lines)
    lines = ["| check | spec module | technique | assumptions / bounds (level_note) |", "|---|---|---|---|"]
    for path in sorted(glob.glob(os.path.join(VERIF, "checks", "c[0-9]*.py"))):
        mod = importlib.import_module("checks." + os.path.basename(path)[:-3])
        lines.append("| %s | `%s.tla` | %s | %s |" % (mod.META["property_id"], mod.META["engine"], mod.META["technique"].replace("|", "\\|"),
                                                   mod.META["level_note"].replace("|", "\\|")))
    checks = "\n".join(lines)
    path = os.path.join(VERIF, "DESIGN.md")
    doc = open(path).read()
    doc = block("CHECKS", checks, doc)
    doc = block("FINDINGS", findings, doc)
    doc = block("FIXED", fixed, doc)
    doc = block("SEEDS", seeds, doc)
    if "<!-- BEGIN BENIGN -->" in doc:
        doc = block("BENIGN", benign, doc)
    if "<!-- BEGIN NEUTRAL -->" in doc:
        doc = block("NEUTRAL", neutral, doc)
    open(path, "w").write(doc)
    print("DESIGN.md tables regenerated")


if __name__ == "__main__":
    main()
